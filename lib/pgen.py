"""Grammar-directed generator of generator-function bodies (abstract syntax as JSON-like
dicts) and their renderings: go-co source, reference (refco) source.

Statement kinds (key "s"):
  atom id | panic id | yield id | yieldx x | block b | if init c then else | switch init tag cases |
  tswitch init x bind cases | for init c post b | break | continue | return | fallthrough |
  decl x id | inc x | use x id | closure f x id | call f | yieldfrom g | rangeiter g form x b |
  range kind form b | unsupported u
"""
import json
import re


class PGen:
    def __init__(self, rng, feats=None):
        self.rng = rng
        self.nid = 0
        self.nvar = 0
        self.feats = feats or set()   # optional features: "vars", "closures", "tswitch", "panic", "yieldfrom", "postyield"
        self.others = []              # names of generators available for YieldFrom / range

    def fresh(self):
        self.nid += 1
        return self.nid

    def var(self):
        self.nvar += 1
        return "x%d" % self.nvar

    # ctx: dict(loop=bool, switch=bool, vars=[names in scope], funcs=[closures in scope], depth=int, last_case=bool)
    def stmts(self, n, ctx, size):
        out = []
        ctx = dict(ctx)
        ctx["vars"] = list(ctx["vars"])
        ctx["funcs"] = list(ctx["funcs"])
        ctx["local"] = []          # names declared in THIS block (cannot be redeclared here)
        for i in range(n):
            s = self.stmt(ctx, size)
            out.append(s)
            if s["s"] in ("break", "continue", "return"):
                break
            if s["s"] in ("for", "switch") and s.get("shadow") and self.rng.random() < 0.6:
                # the initialiser of this loop shadows an outer variable: read the outer one again after the loop
                out.append({"s": "yieldx", "x": s["shadow"]})
        return out

    def simple(self, ctx):
        """A simple statement usable as init/post."""
        r = self.rng
        k = r.random()
        if k < 0.6 or "postyield" not in self.feats:
            return {"s": "atom", "id": self.fresh()}
        return {"s": "yield", "id": self.fresh()}

    def stmt(self, ctx, size):
        s = self.stmt0(ctx, size)
        if ctx.get("noyield"):
            s = self.strip_yields(s)
        return s

    def strip_yields(self, s):
        """Inside a construct that is meant to stay native: replace yields by plain atoms."""
        if s["s"] in ("yield", "yieldx", "yieldfrom"):
            return {"s": "atom", "id": self.fresh()}
        if s["s"] == "rangeiter":
            return {"s": "atom", "id": self.fresh()}
        for key in ("init", "post"):
            if s.get(key) and s[key]["s"] == "yield":
                s[key] = {"s": "atom", "id": self.fresh()}
        return s

    def stmt0(self, ctx, size):
        r = self.rng
        if (ctx["loop"] or ctx["switch"]) and r.random() < 0.13:
            # branch statements, mostly guarded so that the rest of the block stays reachable
            br = {"s": "continue"} if (ctx["loop"] and r.random() < 0.5) else {"s": "break"}
            if r.random() < 0.65:
                return {"s": "if", "init": None, "c": self.fresh(), "then": [br], "else": None}
            return br
        k = r.random()
        d = ctx["depth"]
        if size <= 1 or d >= 4:
            k = k * 0.5
        if k < 0.16:
            return {"s": "atom", "id": self.fresh()}
        if k < 0.34:
            return {"s": "yield", "id": self.fresh()}
        if k < 0.37:
            if "panic" in self.feats:
                return {"s": "panic", "id": self.fresh()}
            return {"s": "atom", "id": self.fresh()}
        if k < 0.41:
            if ctx["loop"] and r.random() < 0.5:
                return {"s": "continue"}
            if ctx["loop"] or ctx["switch"]:
                return {"s": "break"}
            return {"s": "atom", "id": self.fresh()}
        if k < 0.43:
            return {"s": "return"}
        if k < 0.50:
            v = self.vars_stmt(ctx)
            if v:
                return v
            return {"s": "yield", "id": self.fresh()}
        sub = dict(ctx, depth=d + 1)
        if not ctx.get("noyield") and r.random() < 0.22:
            sub["noyield"] = True      # a compound statement without yields stays native Go
        if k < 0.56:
            return {"s": "block", "b": self.stmts(r.randint(1, 3), sub, size - 1)}
        if k < 0.74:
            return self.ifstmt(sub, size - 1)
        if k < 0.86:
            return self.forstmt(sub, size - 1)
        if k < 0.93:
            return self.switchstmt(sub, size - 1)
        if "range" in self.feats and r.random() < 0.8:
            return self.rangestmt(sub, size - 1)
        if self.others and "yieldfrom" in self.feats and r.random() < 0.7:
            return {"s": "yieldfrom", "g": r.choice(self.others), "id": self.fresh()}
        if self.others and "consumer" in self.feats:
            return self.rangeiter(sub, size - 1)
        if k < 0.97:
            return self.switchstmt(sub, size - 1)
        return {"s": "yield", "id": self.fresh()}

    RANGE_FORMS = {
        "str": ["kv:=", "k:=", "_v:=", "none", "kv=", "k="],
        "ints": ["kv:=", "k:=", "_v:=", "none", "kv=", "k="],
        "arr": ["kv:=", "k:=", "_v:=", "none", "kv="],
        "map1": ["kv:=", "k:=", "_v:=", "none", "kv="],
        "map2": ["k:=", "kv:="],
        "chan": ["k:=", "none", "k="],
        "n": ["k:=", "none", "k="],
        "anys": ["kv:=", "_v:="],
    }

    def rangestmt(self, ctx, size):
        r = self.rng
        kinds = ["str", "ints", "arr", "map1", "map2", "chan", "anys"] + (["n"] if "rangeint" in self.feats else [])
        kind = r.choice(kinds)
        form = r.choice(self.RANGE_FORMS[kind])
        s = {"s": "range", "kind": kind, "form": form, "id": self.fresh(), "uid": self.fresh(),
             "mutate": (kind in ("ints", "arr") and r.random() < 0.3) or (kind == "n" and r.random() < 0.5), "closure": False,
             "upd": kind == "map2" and r.random() < 0.5}
        if r.random() < 0.15:
            # a range loop inside a plain closure nested in the generator: trivial body only
            s["closure"] = True
            s["b"] = [{"s": "atom", "id": self.fresh()}]
            return s
        sub = dict(ctx, loop=True, switch=False)
        s["b"] = self.stmts(r.randint(1, 3), sub, size)
        return s

    def rangeiter(self, ctx, size):
        r = self.rng
        sub = dict(ctx, loop=True, switch=False)
        return {"s": "rangeiter", "g": r.choice(self.others), "form": r.choice([":=", ":=", "="]),
                "id": self.fresh(), "b": self.stmts(r.randint(1, 3), sub, size)}

    def vars_stmt(self, ctx):
        r = self.rng
        if "vars" not in self.feats:
            return None
        k = r.random()
        if k < 0.35 or not ctx["vars"]:
            # declaration; sometimes shadowing an outer name
            outer = [v for v in ctx["vars"] if v not in ctx["local"]]
            if outer and r.random() < 0.3:
                x = r.choice(outer)
            else:
                x = self.var()
            ctx["local"].append(x)
            if x not in ctx["vars"]:
                ctx["vars"].append(x)
            return {"s": "decl", "x": x, "id": self.fresh()}
        if "redecl" in self.feats and ctx["local"] and r.random() < 0.12:
            # partial redeclaration: 'x, n := ...' where x was declared in THIS block assigns to x (Go spec, short variable
            # declarations); if the rewriter has moved the statement into a function literal it declares a new x (finding F24)
            return {"s": "redecl", "x": r.choice(ctx["local"]), "id": self.fresh()}
        x = r.choice(ctx["vars"])
        if k < 0.55:
            return {"s": "inc", "x": x}
        if k < 0.75:
            return {"s": "use", "x": x, "id": self.fresh()}
        if k < 0.85:
            return {"s": "yieldx", "x": x}
        if "closures" in self.feats:
            if k < 0.93 or not ctx["funcs"]:
                self.nvar += 1
                f = "f%d" % self.nvar
                ctx["funcs"].append(f)
                return {"s": "closure", "f": f, "x": x, "id": self.fresh()}
            return {"s": "call", "f": r.choice(ctx["funcs"])}
        return {"s": "use", "x": x, "id": self.fresh()}

    def ifstmt(self, ctx, size, chain=0):
        r = self.rng
        s = {"s": "if", "init": None, "c": self.fresh(), "then": self.stmts(r.randint(1, 3), ctx, size), "else": None}
        if r.random() < 0.12:
            s["init"] = {"s": "atom", "id": self.fresh()}
        k = r.random()
        if k < 0.35:
            s["else"] = self.stmts(r.randint(1, 2), ctx, size)
        elif k < 0.5 and chain < 2:
            s["else"] = self.ifstmt(ctx, size, chain + 1)
        return s

    def forstmt(self, ctx, size):
        r = self.rng
        sub = dict(ctx, loop=True, switch=False)
        form = r.random()
        s = {"s": "for", "init": None, "c": None, "post": None, "b": None}
        if form < 0.45:
            s["c"] = self.fresh()
        elif form < 0.85:
            s["init"] = self.simple(ctx)
            s["c"] = self.fresh()
            s["post"] = self.simple(ctx)
            if r.random() < 0.15:
                s["init"] = None
            if "declinit" in self.feats and r.random() < 0.4:
                # 'for x := …; c; x++ { … }': the rewriter hoists a ':=' initialiser into a fresh block around the loop
                outer = list(ctx["vars"])
                x = r.choice(outer) if outer and r.random() < 0.4 else self.var()
                if x in outer:
                    s["shadow"] = x
                s["init"] = {"s": "decl", "x": x, "id": self.fresh()}
                if r.random() < 0.5:
                    s["post"] = {"s": "inc", "x": x}
                sub = dict(sub, vars=[v for v in ctx["vars"] if v != x] + [x])
                s["b"] = [{"s": "use", "x": x, "id": self.fresh()}] + self.stmts(r.randint(1, 3), sub, size)
                return s
        # else: infinite loop
        s["b"] = self.stmts(r.randint(1, 3), sub, size)
        if s["c"] is None:
            # an infinite loop must spend budget in every iteration, or the run never ends
            s["b"].insert(0, {"s": "atom", "id": self.fresh()})
        return s

    def switchstmt(self, ctx, size):
        r = self.rng
        sub = dict(ctx, switch=True)
        tagless = r.random() < 0.3
        ncase = r.randint(1, 3)
        cases = []
        vals = [0, 1, 2]
        r.shuffle(vals)
        default_at = r.randrange(ncase + 1) if r.random() < 0.6 else -1
        for i in range(ncase + (1 if default_at >= 0 else 0)):
            body = self.stmts(r.randint(0, 2), sub, size)
            if i == default_at:
                cases.append({"vals": None, "b": body})
            elif tagless:
                cases.append({"c": self.fresh(), "b": body})
            else:
                if not vals:
                    break
                take = [vals.pop()]
                if vals and r.random() < 0.2:
                    take.append(vals.pop())
                cases.append({"vals": take, "b": body})
        s = {"s": "switch", "init": None, "tag": None if tagless else self.fresh(), "cases": cases}
        if r.random() < 0.12:
            s["init"] = {"s": "atom", "id": self.fresh()}
        if "declinit" in self.feats and not tagless and r.random() < 0.35:
            # 'switch x := …; tag(x) { … }': the rewriter hoists a ':=' initialiser into a fresh block around the switch
            outer = list(ctx["vars"])
            x = r.choice(outer) if outer and r.random() < 0.5 else self.var()
            if x in outer:
                s["shadow"] = x
            s["init"] = {"s": "decl", "x": x, "id": self.fresh()}
            s["tagx"] = x
        return s

    def body(self, size):
        ctx = {"loop": False, "switch": False, "vars": [], "funcs": [], "depth": 0, "local": []}
        return self.stmts(self.rng.randint(1, 4), ctx, size)


def tag_text(s):
    """The tag expression of a switch; a switch whose initialiser declares x mentions x in its tag."""
    t = "tr.T(%d)" % s["tag"]
    return "%s+%s-%s" % (t, s["tagx"], s["tagx"]) if s.get("tagx") else t


# ----------------------------------------------------------------------------- analysis

def walk(stmts, f, path=()):
    for i, s in enumerate(stmts):
        f(s, path + (i,))
        k = s["s"]
        if k == "block":
            walk(s["b"], f, path + (i, "b"))
        elif k == "if":
            if s.get("init"):
                f(s["init"], path + (i, "init"))
            walk(s["then"], f, path + (i, "then"))
            e = s.get("else")
            if isinstance(e, list):
                walk(e, f, path + (i, "else"))
            elif e:
                walk([e], f, path + (i, "elif"))
        elif k in ("switch", "tswitch"):
            if s.get("init"):
                f(s["init"], path + (i, "init"))
            for j, c in enumerate(s["cases"]):
                walk(c["b"], f, path + (i, "case", j))
        elif k in ("for", "range", "rangeiter"):
            if s.get("init"):
                f(s["init"], path + (i, "init"))
            if s.get("post"):
                f(s["post"], path + (i, "post"))
            walk(s["b"], f, path + (i, "b"))


def has_yield(stmts):
    found = []

    def f(s, p):
        if s["s"] in ("yield", "yieldx", "yieldfrom") or (s["s"] == "raw" and s.get("y")):
            found.append(p)
    walk(stmts, f)
    return bool(found)


def count(stmts):
    n = [0]

    def f(s, p):
        n[0] += 1
    walk(stmts, f)
    return n[0]


def children_lists(s):
    """(label, list-of-statements) pairs directly nested in statement s."""
    k = s["s"]
    out = []
    if k == "block":
        out.append(("block", s["b"]))
    elif k == "if":
        out.append(("then", s["then"]))
        e = s.get("else")
        if isinstance(e, list):
            out.append(("else", e))
        elif e:
            out.append(("elif", [e]))
    elif k in ("switch", "tswitch"):
        for c in s["cases"]:
            out.append(("case", c["b"]))
    elif k in ("for", "range", "rangeiter"):
        out.append(("body", s["b"]))
    return out


def known_shapes(stmts):
    """Shape predicates of recorded findings (DESIGN.md §9) that a body matches."""
    found = set()

    def go(ss, loop_post_yield, switch_thunk):
        # loop_post_yield: the innermost enclosing loop has a yielding post statement
        # switch_thunk: None when the innermost breakable is not a switch; else True/False whether
        #               this statement list already runs inside a callback of that switch's case body
        yielded = False
        declared = {}      # name -> were the statements after its declaration in this list moved into a callback?
        for idx, s in enumerate(ss):
            k = s["s"]
            last = idx == len(ss) - 1
            if k == "redecl" and declared.get(s["x"]):
                found.add("F24")
            if k in ("decl", "redecl"):
                declared[s["x"]] = False
            elif has_yield([s]):
                # everything after a yielding statement of a list is emitted inside a function literal
                for x in declared:
                    declared[x] = True
            in_thunk = (switch_thunk is not None) and (switch_thunk or yielded)
            if k == "continue" and loop_post_yield:
                found.add("F1")
            if k == "range" and s["kind"] == "arr" and s.get("mutate") and "v" in s["form"]:
                found.add("F4")
            if k == "break" and in_thunk:
                found.add("F2")
            if k == "for":
                py = bool(s.get("post") and s["post"]["s"] in ("yield", "yieldx"))
                go(s["b"], py, None)
            elif k in ("range", "rangeiter"):
                go(s["b"], False, None)
            elif k in ("switch", "tswitch"):
                for c in s["cases"]:
                    go(c["b"], loop_post_yield, False)
            else:
                # a yielding compound statement that is not the last of its block (or is a block
                # statement) is wrapped in its own callback by the rewriter
                wrapped = has_yield([s]) and (not last or k == "block")
                for _, sub in children_lists(s):
                    go(sub, loop_post_yield, None if switch_thunk is None else (in_thunk or wrapped))
            if has_yield([s]):
                yielded = True

    go(stmts, False, None)
    return found


def features(stmts):
    """Coverage features of a body (which constructs / rule combinations it exercises)."""
    fs = set()

    def go(ss, ctx):
        for idx, s in enumerate(ss):
            k = s["s"]
            last = idx == len(ss) - 1
            y = has_yield([s])
            name = k
            if k == "for":
                name = "for:%s%s%s" % ("i" if s.get("init") else "-", "c" if s.get("c") is not None else "-", "p" if s.get("post") else "-")
                if s.get("post") and s["post"]["s"] == "yield":
                    fs.add("for-post-yield")
                if s.get("init") and s["init"]["s"] == "yield":
                    fs.add("for-init-yield")
            if k == "switch":
                name = "switch" if s.get("tag") is not None else "switch-tagless"
                if any(c.get("vals") is None and "c" not in c for c in s["cases"]):
                    fs.add("switch-default")
            if k == "if" and s.get("else") is not None:
                name = "if-else" if isinstance(s["else"], list) else "if-elif"
            fs.add("%s/%s/%s/%s" % (name, "yielding" if y else "trivial", "last" if last else "notlast", ctx))
            for label, sub in children_lists(s):
                go(sub, label)

    go(stmts, "top")
    return fs


# ----------------------------------------------------------------------------- rendering

class Render:
    """mode 'co': go-co source; mode 'ref': plain Go on refco."""

    def __init__(self, mode):
        self.mode = mode
        self.lines = []

    def emit(self, ind, text):
        self.lines.append("\t" * ind + text)

    def simple(self, s):
        k = s["s"]
        if k == "atom":
            return "tr.E(%d)" % s["id"]
        if k == "yield":
            return self.yield_("tr.V(%d)" % s["id"], s["id"] % 4 == 0)
        if k == "yieldx":
            return self.yield_(s["x"])
        if k == "decl":
            return "%s := tr.I(%d)" % (s["x"], s["id"])
        if k == "inc":
            return "%s++" % s["x"]
        raise ValueError(s)

    def yield_(self, e, explicit=False):
        # every fourth Yield is written with its type argument: Yield[int](x)
        if self.mode == "co":
            return ("Yield[int](%s)" % e) if explicit else ("Yield(%s)" % e)
        return "y.Yield(%s)" % e

    def stmts(self, ss, ind):
        for s in ss:
            self.stmt(s, ind)

    def stmt(self, s, ind):
        k = s["s"]
        e = self.emit
        if k == "atom":
            e(ind, "tr.E(%d)" % s["id"])
        elif k == "panic":
            e(ind, "tr.P(%d)" % s["id"])
        elif k == "yield":
            e(ind, self.yield_("tr.V(%d)" % s["id"], s["id"] % 4 == 0))
        elif k == "yieldx":
            e(ind, self.yield_(s["x"]))
        elif k == "yieldfrom":
            if self.mode == "co":
                e(ind, ("YieldFrom[int](%s())" if s.get("id", 1) % 3 == 0 else "YieldFrom(%s())") % s["g"])
            else:
                e(ind, "y.YieldFrom(%s())" % s["g"])
        elif k == "block":
            e(ind, "{")
            self.stmts(s["b"], ind + 1)
            e(ind, "}")
        elif k == "if":
            self.ifstmt(s, ind, "if ")
        elif k == "for":
            init = self.simple(s["init"]) if s.get("init") else ""
            post = self.simple(s["post"]) if s.get("post") else ""
            cond = "tr.C(%d)" % s["c"] if s.get("c") is not None else ""
            if not init and not post:
                e(ind, "for %s{" % (cond + " " if cond else ""))
            else:
                e(ind, "for %s; %s; %s {" % (init, cond, post))
            self.stmts(s["b"], ind + 1)
            e(ind, "}")
        elif k == "switch":
            init = self.simple(s["init"]) + "; " if s.get("init") else ""
            if s.get("tag") is not None:
                e(ind, "switch %s%s {" % (init, tag_text(s)))
            else:
                e(ind, "switch %s{" % init)
            for c in s["cases"]:
                if "c" in c:
                    e(ind, "case tr.C(%d):" % c["c"])
                elif c["vals"] is None:
                    e(ind, "default:")
                else:
                    e(ind, "case %s:" % ", ".join(str(v) for v in c["vals"]))
                self.stmts(c["b"], ind + 1)
            e(ind, "}")
        elif k in ("break", "continue", "fallthrough"):
            e(ind, k)
        elif k == "return":
            e(ind, "return nil" if self.mode == "co" else "return")
        elif k == "decl":
            e(ind, "%s := tr.I(%d)" % (s["x"], s["id"]))
            e(ind, "_ = %s" % s["x"])
        elif k == "redecl":
            e(ind, "%s, n%d := tr.I(%d), 0" % (s["x"], s["id"], s["id"]))
            e(ind, "_ = n%d" % s["id"])
        elif k == "inc":
            e(ind, "%s++" % s["x"])
        elif k == "use":
            e(ind, "tr.U(%d, %s)" % (s["id"], s["x"]))
        elif k == "closure":
            e(ind, "%s := func() { %s += 100; tr.U(%d, %s) }" % (s["f"], s["x"], s["id"], s["x"]))
            e(ind, "_ = %s" % s["f"])
        elif k == "call":
            e(ind, "%s()" % s["f"])
        elif k == "raw":
            for line in s["text"]:
                if self.mode == "co":
                    line = line.replace("YIELDFROM(", "YieldFrom(").replace("YIELD(", "Yield(").replace("RETURN", "return nil")
                else:
                    line = line.replace("YIELDFROM(", "y.YieldFrom(").replace("YIELD(", "y.Yield(").replace("RETURN", "return")
                e(ind, line)
        elif k == "range":
            self.rangestmt(s, ind)
        elif k == "rangeiter":
            self.rangeiter(s, ind)
        else:
            raise ValueError(s)

    SRC = {"str": "tr.Str(%d)", "ints": "tr.Ints(%d)", "arr": "tr.Arr(%d)", "map1": "tr.Map1(%d)", "map2": "tr.Map2(%d)",
           "chan": "tr.Chan(%d)", "n": "tr.N(%d)", "anys": "tr.Anys(%d)"}

    @classmethod
    def range_parts(cls, s):
        """The pieces of a rendered range statement: lines before the loop, the range operand, the lines at the top of the
        body (strings, or ("if", cond, [lines]) for the one compound statement), lines after the loop."""
        kind, form, i = s["kind"], s["form"], s["id"]
        k, v = "k%d" % i, "v%d" % i
        src = cls.SRC[kind] % i
        pre, inner, post = [], [], []
        if s.get("mutate") or kind in ("arr", "map2"):
            # arrays are always bound to a variable first: ranging over an unaddressable array
            # does not build after rewriting (recorded finding F4, kept in the findings corpus)
            pre.append("c%d := %s" % (i, src))
            src = "c%d" % i
        if form.endswith("=") and not form.endswith(":="):
            vt = {"str": "rune", "anys": "any"}.get(kind, "int")
            pre.append("var %s int" % k)
            pre.append("_ = %s" % k)
            if form == "kv=":
                pre.append("var %s %s" % (v, vt))
                pre.append("_ = %s" % v)
        head = {"kv:=": "for %s, %s := range %s {" % (k, v, src), "k:=": "for %s := range %s {" % (k, src),
                "_v:=": "for _, %s := range %s {" % (v, src), "none": "for range %s {" % src,
                "kv=": "for %s, %s = range %s {" % (k, v, src), "k=": "for %s = range %s {" % (k, src)}[form]
        uid = s["uid"]
        if kind == "map2" and s.get("upd") and form == "kv:=":
            # update the other entry: Go reads the value when the entry is visited, so the second
            # iteration (whichever it is) sees the update; keys are not logged
            inner.append("c%d[3-%s] += 100" % (i, k))
            inner.append("tr.U(%d, %s-10*%s)" % (uid, v, k))
        elif kind == "map2":
            # delete the other entry: exactly one iteration in any order; the key itself is not logged
            inner.append("delete(c%d, 3-%s)" % (i, k))
            inner.append("tr.U(%d, len(c%d))" % (uid, i))
            if form == "kv:=":
                inner.append("tr.U(%d, %s/%s)" % (uid, v, k))
        elif form in ("kv:=", "k:=", "kv=", "k="):
            inner.append("tr.U(%d, %s)" % (uid, k))
        if kind != "map2" and form in ("kv:=", "_v:=", "kv="):
            if kind == "anys":
                inner.append("tr.UA(%d, %s)" % (uid, v))
            else:
                inner.append("tr.U(%d, int(%s))" % (uid, v))
        if s.get("mutate") and kind == "n":
            # the bound and the iteration variable are written by the body: Go evaluated the bound once
            # and hands the body a fresh copy of the iteration value
            inner.append("c%d -= 2" % i)
            if form == "k:=":
                inner.append("%s += 3" % k)
                inner.append("tr.U(%d, %s)" % (uid, k))
        elif s.get("mutate"):
            if kind == "ints":
                inner.append(("if", "len(c%d) > 0" % i, ["c%d[len(c%d)-1] += 1000" % (i, i), "c%d = append(c%d, 1)" % (i, i)]))
            else:
                inner.append("c%d[2] += 1000" % i)
        if form in ("kv=", "k="):
            post.append("tr.U(%d, %s)" % (uid, k))
        return {"pre": pre, "src": src, "head": head, "inner": inner, "post": post, "k": k, "v": v}

    def rangestmt(self, s, ind):
        e = self.emit
        parts = self.range_parts(s)
        if s["closure"]:
            e(ind, "func() {")
            ind += 1
        for l in parts["pre"]:
            e(ind, l)
        e(ind, parts["head"])
        for l in parts["inner"]:
            if isinstance(l, tuple):
                e(ind + 1, "if %s { %s }" % (l[1], "; ".join(l[2])))
            else:
                e(ind + 1, l)
        self.stmts(s["b"], ind + 1)
        e(ind, "}")
        for l in parts["post"]:
            e(ind, l)
        if s["closure"]:
            ind -= 1
            e(ind, "}()")

    def rangeiter(self, s, ind):
        e = self.emit
        x = "w%d" % s["id"]
        if self.mode == "co":
            if s["form"] == "=":
                e(ind, "var %s int" % x)
                e(ind, "for %s = range %s() {" % (x, s["g"]))
            else:
                e(ind, "for %s := range %s() {" % (x, s["g"]))
            e(ind + 1, "tr.U(%d, %s)" % (s["id"], x))
            self.stmts(s["b"], ind + 1)
            e(ind, "}")
        else:
            if s["form"] == "=":
                e(ind, "var %s int" % x)
            e(ind, "for it%d := %s(); it%d.MoveNext(); {" % (s["id"], s["g"], s["id"]))
            e(ind + 1, "%s %s it%d.Current()" % (x, s["form"], s["id"]))
            e(ind + 1, "tr.U(%d, %s)" % (s["id"], x))
            e(ind + 1, "{")
            self.stmts(s["b"], ind + 2)
            e(ind + 1, "}")
            e(ind, "}")
        if s["form"] == "=":
            e(ind, "tr.U(%d, %s)" % (s["id"], x))

    def ifstmt(self, s, ind, head):
        init = self.simple(s["init"]) + "; " if s.get("init") else ""
        self.emit(ind, "%s%str.C(%d) {" % (head, init, s["c"]))
        self.stmts(s["then"], ind + 1)
        els = s.get("else")
        if els is None:
            self.emit(ind, "}")
        elif isinstance(els, list):
            self.emit(ind, "} else {")
            self.stmts(els, ind + 1)
            self.emit(ind, "}")
        else:
            # else-if chain: render "} else if ..." on one line
            saved = self.lines
            self.lines = []
            self.ifstmt(els, ind, "} else if ")
            sub = self.lines
            self.lines = saved
            self.lines.extend(sub)


def render_func(name, body, mode):
    r = Render(mode)
    if mode == "co":
        r.emit(0, "func %s() Iter[int] {" % name)
        r.stmts(body, 1)
        r.emit(1, "return nil")
        r.emit(0, "}")
    else:
        r.emit(0, "func %s() refco.Iter {" % name)
        r.emit(1, "return refco.New(func(y *refco.Y) {")
        r.stmts(body, 2)
        r.emit(1, "})")
        r.emit(0, "}")
    return "\n".join(r.lines)


# ways of importing the API in a source file (C11): name of the co import, name of an already present seq import
IMPORT_STYLES = {
    "dot": (".", None),
    "default": ("", None),
    "renamed": ("gen", None),
    "dot+seq": (".", ""),
    "default+seqrenamed": ("", "rt"),
    "renamed+seq": ("gen", ""),
}


def apply_import_style(text, style):
    """Rewrite a dot-import rendering of a source file into another import style."""
    co, sq = IMPORT_STYLES[style]
    if co != ".":
        q = (co or "co") + "."
        text = re.sub(r"(?<![\w.])(YieldFrom|Yield)([\(\[])", lambda m: q + m.group(1) + m.group(2), text)
        text = re.sub(r"(?<![\w.])Iter\[", q + "Iter[", text)
    imp = '\t%s"github.com/goghcrow/go-co"' % ("" if co == "" else co + " ")
    lines = [imp]
    use = ""
    if sq is not None:
        lines.append('\t%s"github.com/goghcrow/go-co/seq"' % ("" if sq == "" else sq + " "))
        use = "\nvar _ = %s.Normal[int]\n" % (sq or "seq")
    text = text.replace('\t. "github.com/goghcrow/go-co"', "\n".join(lines), 1)
    return text.replace("var _ = tr.E\n", "var _ = tr.E\n" + use, 1)


def render_file(pkg, funcs, mode, style="dot"):
    """funcs: list of (name, body)."""
    if mode == "co" and style != "dot":
        return apply_import_style(render_file(pkg, funcs, mode), style)
    out = ["package %s" % pkg, ""]
    if mode == "co":
        out += ['import (', '\t. "github.com/goghcrow/go-co"', '\t"genmod/tr"', ')', ""]
    else:
        out += ['import (', '\t"genmod/refco"', '\t"genmod/tr"', ')', ""]
    out.append("var _ = tr.E")
    if mode == "ref":
        out.append("var _ = refco.New")
    out.append("")
    for name, body in funcs:
        out.append(render_func(name, body, mode))
        out.append("")
    return "\n".join(out)


def dumps(x):
    return json.dumps(x, sort_keys=True)
