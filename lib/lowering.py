"""pass1 of the rewriter as seen by the source abstraction: YieldFrom and range-over-iterator are
lowered to the core loop the real compiler produces before pass2 (rewriter/yieldfrom_rewrite.go,
rewriteForRange), including the block that hoists the `ɪʇ := g()` initialiser:

    YieldFrom(g())            =>  { ɪʇ := g(); for ɪʇ.MoveNext() { ʌ := ɪʇ.Current(); Yield(ʌ) } }
    for w := range g() { B }  =>  { ɪʇ := g(); for ɪʇ.MoveNext() { w := ɪʇ.Current(); B } }
    for w = range g() { B }   =>  { ɪʇ := g(); for ɪʇ.MoveNext() { w = ɪʇ.Current(); B } }

The lowered program is in the abstract syntax of coq/Syntax.v, so the rewriter and optimiser models
and the side conditions of the C01 / C07 theorems apply to it; the structural correspondence then
checks this lowering together with the models against the real output."""


def norm(t):
    import re
    return re.sub(r"[\s;]", "", t)


def atom(text):
    return {"s": "atom", "t": norm(text)}


def loop(g, first, body):
    return {"s": "block", "b": [atom("ɪʇ := %s()" % g),
                                {"s": "for", "init": None, "c": "ɪʇ.MoveNext()", "post": None, "b": first + body}]}


def yieldfrom(s):
    return [loop(s["g"], [atom("ʌ := ɪʇ.Current()")], [{"s": "yield", "v": "ʌ"}])]


def rangeiter(s, body_abs):
    """body_abs: the already abstracted loop body."""
    x = "w%d" % s["id"]
    use = atom("tr.U(%d, %s)" % (s["id"], x))
    if s["form"] == "=":
        return [atom("var %s int" % x), loop(s["g"], [atom("%s = ɪʇ.Current()" % x), use], body_abs), use]
    return [loop(s["g"], [atom("%s := ɪʇ.Current()" % x), use], body_abs)]


# ------------------------------------------------------------------ range over a built-in collection (rewriter/range.go)
CTOR = {"str": "NewStringIter", "ints": "NewSliceIter", "anys": "NewSliceIter", "arr": "NewSliceIter", "map1": "NewMapIter",
        "map2": "NewMapIter", "chan": "NewChanIter", "n": "NewIntegerIter"}


def itname(arg):
    """Canonical name of the generated iterator variable: the real one carries a per-file counter, both sides are renamed
    after the constructor call that initialises the variable."""
    return "ɪʇ<%s>" % norm(arg)


def rangestmt(s, body_abs):
    """    for k, v (:)= range x { B }   =>   ɪʇN := seq.NewXIter(x); for ɪʇN.MoveNext() { k, v (:)= ɪʇN.Current().Key, ɪʇN.Current().Val; {B} | B }
    (x[:] for arrays; no binding statement when both variables are absent or blank)."""
    import pgen
    parts = pgen.Render.range_parts(s)
    kind, form = s["kind"], s["form"]
    arg = parts["src"] + ("[:]" if kind == "arr" else "")
    it = itname(arg)
    k, v = parts["k"], parts["v"]
    inner = []
    for l in parts["inner"]:
        if isinstance(l, tuple):
            inner.append({"s": "if", "init": None, "c": norm(l[1]), "then": [atom(x) for x in l[2]], "else": None})
        else:
            inner.append(atom(l))
    body = inner + body_abs
    tok = ":=" if form.endswith(":=") else "="
    cur = "%s.Current()" % it
    kv = {"kv": "%s, %s %s %s.Key, %s.Val" % (k, v, tok, cur, cur), "k": "%s %s %s.Key" % (k, tok, cur),
          "_v": "%s %s %s.Val" % (v, tok, cur)}.get(form.rstrip(":="))
    if form == "none":
        fbody = body
    elif tok == ":=":
        fbody = [atom(kv), {"s": "block", "b": body}]
    else:
        fbody = [atom(kv)] + body
    return ([atom(l) for l in parts["pre"]] +
            [atom("%s := SEQ.%s(%s)" % (it, CTOR[kind], arg)),
             {"s": "for", "init": None, "c": "%s.MoveNext()" % it, "post": None, "b": fbody}] +
            [atom(l) for l in parts["post"]])
