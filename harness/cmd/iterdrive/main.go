// iterdrive: runs the iterators of seq/iter.go and Go's native range statement on
// the same inputs (JSON cases on stdin) and prints both observations.
// With -par it consumes fresh iterators for edge inputs on many goroutines at once
// (meant to be built with -race).
package main

import (
	"encoding/json"
	"flag"
	"fmt"
	"math"
	"os"
	"sort"
	"sync"

	"github.com/goghcrow/go-co/seq"
)

type Case struct {
	Kind   string   `json:"kind"`
	Bytes  []int    `json:"bytes,omitempty"`
	N      int      `json:"n,omitempty"`
	Init   []int    `json:"init,omitempty"`
	Script [][3]int `json:"script,omitempty"` // slice: (step, index, value); map: (step, op, entry) op 0=delete 1=insert 2=update
	Q      []int    `json:"q,omitempty"`
	Keys   []string `json:"keys,omitempty"` // map entries: key codes
	Vals   []string `json:"vals,omitempty"`
}

type Out struct {
	Iter   [][2]int64 `json:"iter"`
	Native [][2]int64 `json:"native"`
	Err    string     `json:"err,omitempty"`
	Viol   []string   `json:"viol,omitempty"`
}

func str(c Case) string {
	b := make([]byte, len(c.Bytes))
	for i, x := range c.Bytes {
		b[i] = byte(x)
	}
	return string(b)
}

func runStr(c Case, o *Out) {
	s := str(c)
	it := seq.NewStringIter(s)
	for it.MoveNext() {
		p := it.Current()
		q := it.Current() // Current must be stable
		if p != q {
			o.Viol = append(o.Viol, "Current not stable")
		}
		o.Iter = append(o.Iter, [2]int64{int64(p.Key), int64(p.Val)})
	}
	if it.MoveNext() {
		o.Viol = append(o.Viol, "MoveNext true after false")
	}
	for i, r := range s {
		o.Native = append(o.Native, [2]int64{int64(i), int64(r)})
	}
}

func runInt(c Case, o *Out) {
	it := seq.NewIntegerIter(c.N)
	for it.MoveNext() {
		o.Iter = append(o.Iter, [2]int64{int64(it.Current().Key), 0})
	}
	if it.MoveNext() {
		o.Viol = append(o.Viol, "MoveNext true after false")
	}
	for i := range c.N {
		o.Native = append(o.Native, [2]int64{int64(i), 0})
	}
}

func body(script [][3]int, step int, xs []int) {
	for _, e := range script {
		if e[0] == step && e[1] < len(xs) {
			xs[e[1]] = e[2]
		}
	}
}

func runSlice(c Case, o *Out) {
	a := append([]int(nil), c.Init...)
	if c.Init == nil {
		a = nil
	}
	it := seq.NewSliceIter(a)
	step := 0
	for it.MoveNext() {
		p := it.Current()
		o.Iter = append(o.Iter, [2]int64{int64(p.Key), int64(p.Val)})
		body(c.Script, step, a)
		a2 := append(a, 99) // appending to the ranged variable must not matter
		_ = a2
		step++
	}
	b := append([]int(nil), c.Init...)
	step = 0
	for i, v := range b {
		o.Native = append(o.Native, [2]int64{int64(i), int64(v)})
		body(c.Script, step, b)
		step++
	}
}

func runChan(c Case, o *Out) {
	mk := func() chan int {
		ch := make(chan int, len(c.Q)+1)
		for _, x := range c.Q {
			ch <- x
		}
		close(ch)
		return ch
	}
	it := seq.NewChanIter[int](mk())
	for it.MoveNext() {
		o.Iter = append(o.Iter, [2]int64{int64(it.Current().Key), 0})
	}
	if it.MoveNext() {
		o.Viol = append(o.Viol, "MoveNext true after close")
	}
	for v := range mk() {
		o.Native = append(o.Native, [2]int64{int64(v), 0})
	}
}

// map cases: keys/values are codes: "nil", "nan", "i<k>", "s<k>"
func dec(code string) any {
	switch {
	case code == "nil":
		return nil
	case code == "nan":
		return math.NaN()
	case code[0] == 'i':
		var k int
		fmt.Sscanf(code[1:], "%d", &k)
		return k
	default:
		return code
	}
}

func isNaN(x any) bool { f, ok := x.(float64); return ok && f != f }

// runMap drives a map[any]any through the iterator (or native range) with a mutation
// script and checks the language-specification guarantees on that run.
func runMap(c Case, useIter bool) (viol []string, produced int) {
	m := map[any]any{}
	nan := 0
	var nanWant, nanGot []string // values stored under NaN keys (they can neither be deleted nor updated afterwards)
	for i, k := range c.Keys {
		m[dec(k)] = dec(c.Vals[i])
		if k == "nan" {
			nan++
			nanWant = append(nanWant, fmt.Sprint(dec(c.Vals[i])))
		}
	}
	initial := map[any]any{}
	for k, v := range m {
		if !isNaN(k) {
			initial[k] = v
		}
	}
	deleted := map[any]bool{}
	inserted := map[any]bool{}
	seen := map[any]int{}
	nanSeen := 0
	step := 0
	visit := func(k, v any) {
		produced++
		if isNaN(k) {
			nanSeen++
			nanGot = append(nanGot, fmt.Sprint(v))
		} else {
			seen[k]++
			if seen[k] > 1 {
				viol = append(viol, fmt.Sprintf("key %v produced twice", k))
			}
			if deleted[k] {
				viol = append(viol, fmt.Sprintf("key %v produced after it was deleted", k))
			}
			if cur, ok := m[k]; ok && cur != v && !(isNaN(cur) && isNaN(v)) {
				viol = append(viol, fmt.Sprintf("key %v produced with stale value %v (live %v)", k, v, cur))
			}
		}
		for _, e := range c.Script {
			if e[0] != step {
				continue
			}
			switch e[1] {
			case 0: // delete entry e[2] of the initial key list
				k2 := dec(c.Keys[e[2]%len(c.Keys)])
				if !isNaN(k2) {
					if _, ok := m[k2]; ok && seen[k2] == 0 {
						deleted[k2] = true
					}
					delete(m, k2)
				}
			case 1:
				k2 := fmt.Sprintf("new%d", e[2])
				m[k2] = e[2]
				inserted[k2] = true
			case 2:
				k2 := dec(c.Keys[e[2]%len(c.Keys)])
				if _, ok := m[k2]; ok && !isNaN(k2) {
					m[k2] = 1000 + step
				}
			}
		}
		step++
	}
	if useIter {
		it := seq.NewMapIter(m)
		for it.MoveNext() {
			p := it.Current()
			visit(p.Key, p.Val)
		}
	} else {
		for k, v := range m {
			visit(k, v)
		}
	}
	for k := range initial {
		if !deleted[k] && seen[k] != 1 {
			if _, still := m[k]; still {
				viol = append(viol, fmt.Sprintf("entry %v produced %d times (never deleted)", k, seen[k]))
			}
		}
	}
	if nanSeen != nan {
		viol = append(viol, fmt.Sprintf("NaN-keyed entries: %d produced, %d in map", nanSeen, nan))
	} else {
		sort.Strings(nanWant)
		sort.Strings(nanGot)
		if fmt.Sprint(nanWant) != fmt.Sprint(nanGot) {
			viol = append(viol, fmt.Sprintf("NaN-keyed entries produced with values %v, the map holds %v", nanGot, nanWant))
		}
	}
	return
}

func run(c Case) (o Out) {
	defer func() {
		if r := recover(); r != nil {
			o.Err = fmt.Sprint(r)
		}
	}()
	o.Iter, o.Native = [][2]int64{}, [][2]int64{}
	switch c.Kind {
	case "str":
		runStr(c, &o)
	case "int":
		runInt(c, &o)
	case "slice":
		runSlice(c, &o)
	case "chan":
		runChan(c, &o)
	case "map":
		v1, n1 := runMap(c, true)
		v2, _ := runMap(c, false)
		for _, v := range v1 {
			o.Viol = append(o.Viol, "iterator: "+v)
		}
		for _, v := range v2 {
			o.Viol = append(o.Viol, "ORACLE-UNSOUND native range: "+v)
		}
		o.Iter = append(o.Iter, [2]int64{int64(n1), 0})
	}
	return
}

func par() {
	var wg sync.WaitGroup
	for g := 0; g < 8; g++ {
		wg.Add(1)
		go func() {
			defer wg.Done()
			for r := 0; r < 200; r++ {
				for _, n := range []int{-1, 0, 1, 3} {
					it := seq.NewIntegerIter(n)
					for it.MoveNext() {
						_ = it.Current()
					}
				}
				for _, s := range []string{"", "a", "é"} {
					it := seq.NewStringIter(s)
					for it.MoveNext() {
						_ = it.Current()
					}
				}
				it := seq.NewSliceIter[int](nil)
				for it.MoveNext() {
				}
				mi := seq.NewMapIter[int, int](nil)
				for mi.MoveNext() {
				}
				ch := make(chan int)
				close(ch)
				ci := seq.NewChanIter[int](ch)
				for ci.MoveNext() {
				}
			}
		}()
	}
	wg.Wait()
	fmt.Println("par ok")
}

func main() {
	p := flag.Bool("par", false, "parallel consumption of fresh iterators (build with -race)")
	flag.Parse()
	if *p {
		par()
		return
	}
	var cases []Case
	if err := json.NewDecoder(os.Stdin).Decode(&cases); err != nil {
		panic(err)
	}
	out := make([]Out, len(cases))
	for i, c := range cases {
		out[i] = run(c)
	}
	if err := json.NewEncoder(os.Stdout).Encode(out); err != nil {
		panic(err)
	}
}
