(* RangeLoop.v — a range statement inside a generator, as the rewriter emits it:

       ɪʇ := seq.NewXIter(x)
       for ɪʇ.MoveNext() { k, v (:)= ɪʇ.Current().Key, ɪʇ.Current().Val; B }

   (rewriter/range.go).  The iterator variable is generated, so user code cannot name it: the world
   of the lowered program is (iterator state, user world) and every user statement, condition,
   tag, yielded expression and the consumer act on the user world only ([lo]).  The iterator is one of
   the state machines of Iters.v (seq/iter.go) — any [imn] / [icur] here, instantiated below.

   range_spec is the specification: the Go range statement over a collection whose elements are
   [es] — element j is READ (from the user world as it is then) when iteration j starts, so for a
   slice the writes of earlier iterations are visible, while the number of iterations was fixed
   before the loop; break leaves the loop, continue goes on with the next element, everything else
   (return, a stop of the generator's consumer at a Yield in B, a panic) leaves the statement. *)
From Coq Require Import List Arith Bool Lia ZArith.
From Verif Require Import Base Syntax Sem SemLemmas Iters.
Import ListNotations.

Section RangeLoop.
  Variables I X K V P : Type.
  (* user code, on the user world *)
  Variable adenX : nat -> X -> outcome X P unit.
  Variable cdenX : nat -> X -> outcome X P bool.
  Variable tdenX : nat -> X -> outcome X P nat.
  Variable kval : nat -> nat.
  Variable ydenX : nat -> X -> outcome X P V.
  Variable envX : nat -> V -> X -> X * bool.

  (* the iterator and the binding statement *)
  Variable imn : I -> I * bool.
  Variable icur : I -> X -> K.
  Variable bind : K -> X -> X.
  Variables a_bind c_mn : nat.
  (* `ɪʇ := seq.NewXIter(x)`: the new iterator is a function of the user world (the collection) *)
  Variable a_init : nat.
  Variable inew : X -> I.

  Definition U := (I * X)%type.
  Definition lo {A} (i : I) (o : outcome X P A) : outcome U P A :=
    match o with Ok x a => Ok (i, x) a | Panic x p => Panic (i, x) p | Stuck => Stuck end.

  Definition aden (a : nat) (u : U) : outcome U P unit :=
    if Nat.eqb a a_bind then Ok (fst u, bind (icur (fst u) (snd u)) (snd u)) tt
    else if Nat.eqb a a_init then Ok (inew (snd u), snd u) tt
    else lo (fst u) (adenX a (snd u)).
  Definition cden (c : nat) (u : U) : outcome U P bool :=
    if Nat.eqb c c_mn then Ok (fst (imn (fst u)), snd u) (snd (imn (fst u))) else lo (fst u) (cdenX c (snd u)).
  Definition tden (t : nat) (u : U) : outcome U P nat := lo (fst u) (tdenX t (snd u)).
  Definition yden (v : nat) (u : U) : outcome U P V := lo (fst u) (ydenX v (snd u)).
  Definition env (k : nat) (v : V) (u : U) : U * bool := ((fst u, fst (envX k v (snd u))), snd (envX k v (snd u))).

  Notation execU := (exec aden cden tden kval yden env).
  Notation execU_list := (exec_list aden cden tden kval yden env).
  Notation execU_from := (exec_from aden cden tden kval yden env).
  Notation execU_pick := (exec_pick aden cden tden kval yden env).
  Notation execU_loop := (exec_loop aden cden tden kval yden env).
  Notation execX := (exec adenX cdenX tdenX kval ydenX envX).
  Notation execX_list := (exec_list adenX cdenX tdenX kval ydenX envX).
  Notation execX_from := (exec_from adenX cdenX tdenX kval ydenX envX).
  Notation execX_pick := (exec_pick adenX cdenX tdenX kval ydenX envX).
  Notation execX_loop := (exec_loop adenX cdenX tdenX kval ydenX envX).

  Definition upw (i : I) (w : W X) : W U := ((i, fst w), snd w).
  Definition mapc (i : I) (c : compl X V P) : compl U V P :=
    match c with
    | CDone g w => CDone g (upw i w)
    | CRet sv w => CRet sv (upw i w)
    | CStop w => CStop (upw i w)
    | CPanic w pv => CPanic (upw i w) pv
    | CStuck => CStuck
    end.

  (* user statements: they mention neither the generated binding statement nor the generated condition *)
  Inductive UserS : stmt -> Prop :=
  | us_atom a : a <> a_bind -> a <> a_init -> UserS (SAtom a)
  | us_yield v : UserS (SYield v)
  | us_block b : Forall UserS b -> UserS (SBlock b)
  | us_if i c t e : UserO i -> c <> c_mn -> Forall UserS t -> UserE e -> UserS (SIf i c t e)
  | us_switch i tag cs : UserO i -> Forall (fun lb => UserL (fst lb) /\ Forall UserS (snd lb)) cs -> UserS (SSwitch i tag cs)
  | us_for i c p b : UserO i -> (forall cc, c = Some cc -> cc <> c_mn) -> UserO p -> Forall UserS b -> UserS (SFor i c p b)
  | us_break : UserS SBreak
  | us_continue : UserS SContinue
  | us_return : UserS SReturn
  | us_fallthrough : UserS SFallthrough
  | us_ret : UserS (SRet XReturn)
  with UserE : els -> Prop :=
  | ue_none : UserE ENone
  | ue_else b : Forall UserS b -> UserE (EElse b)
  | ue_elif s : UserS s -> UserE (EElif s)
  with UserO : option stmt -> Prop :=
  | uo_none : UserO None
  | uo_some s : UserS s -> UserO (Some s)
  with UserL : clabel -> Prop :=
  | ul_default : UserL LDefault
  | ul_vals vs : UserL (LVals vs)
  | ul_cond c : c <> c_mn -> UserL (LCond c).

  Lemma after_map i r (f : W U -> option (compl U V P)) (f' : W X -> option (compl X V P)) :
    (forall w, f (upw i w) = option_map (mapc i) (f' w)) ->
    after_normal (option_map (mapc i) r) f = option_map (mapc i) (after_normal r f').
  Proof.
    intros Hf. destruct r as [[g w|sv w|w|w pv|]|]; try reflexivity.
    destruct g; try reflexivity. cbn. apply Hf.
  Qed.

  Lemma lift_lo A i (o : outcome X P A) k (f : A -> W U -> option (compl U V P)) (f' : A -> W X -> option (compl X V P)) :
    (forall a w, f a (upw i w) = option_map (mapc i) (f' a w)) ->
    lift (lo i o) k f = option_map (mapc i) (lift o k f').
  Proof. intros Hf. destruct o as [x a|x p|]; cbn; [apply (Hf a (x, k))|reflexivity|reflexivity]. Qed.

  (* FRAME: user code leaves the iterator alone and does not depend on it *)
  Lemma frame n :
    (forall s i w, UserS s -> execU n s (upw i w) = option_map (mapc i) (execX n s w)) /\
    (forall l i w, Forall UserS l -> execU_list n l (upw i w) = option_map (mapc i) (execX_list n l w)) /\
    (forall l i w, Forall (fun lb => UserL (fst lb) /\ Forall UserS (snd lb)) l ->
                   execU_from n l (upw i w) = option_map (mapc i) (execX_from n l w)) /\
    (forall a l i w, Forall (fun lb => UserL (fst lb) /\ Forall UserS (snd lb)) a ->
                     Forall (fun lb => UserL (fst lb) /\ Forall UserS (snd lb)) l ->
                     execU_pick n a l (upw i w) = option_map (mapc i) (execX_pick n a l w)) /\
    (forall c p b i w, (forall cc, c = Some cc -> cc <> c_mn) -> UserO p -> Forall UserS b ->
                       execU_loop n c p b (upw i w) = option_map (mapc i) (execX_loop n c p b w)).
  Proof.
    induction n as [|n [IH1 [IH2 [IH3 [IH4 IH5]]]]]; [repeat split; reflexivity|].
    assert (Hinit : forall o i w, UserO o ->
              match o with None => Some (CDone GNormal (upw i w)) | Some x => execU n x (upw i w) end =
              option_map (mapc i) (match o with None => Some (CDone GNormal w) | Some x => execX n x w end)).
    { intros o i w Ho. destruct Ho as [|s Hs]; [reflexivity|apply IH1; exact Hs]. }
    assert (Hdef : forall a, Forall (fun lb => UserL (fst lb) /\ Forall UserS (snd lb)) a ->
               forall d, default_from a = Some d -> Forall (fun lb => UserL (fst lb) /\ Forall UserS (snd lb)) d).
    { induction a as [|[lab b] r IHa]; intros Ha d Hd; [discriminate|].
      inversion Ha as [|? ? Hh Ht]; subst. destruct lab; cbn in Hd; try (apply IHa; assumption).
      inversion Hd; subst. exact Ha. }
    assert (Hpick : forall tv a, Forall (fun lb => UserL (fst lb) /\ Forall UserS (snd lb)) a ->
               forall d, pick_clause kval tv a = Some d -> Forall (fun lb => UserL (fst lb) /\ Forall UserS (snd lb)) d).
    { induction a as [|[lab b] r IHa]; intros Ha d Hd; [discriminate|].
      inversion Ha as [|? ? Hh Ht]; subst. cbn in Hd. destruct (clause_matches kval lab tv).
      - inversion Hd; subst. exact Ha.
      - apply IHa; assumption. }
    repeat split.
    - (* exec *)
      intros s i w Hs. rewrite !exec_S. destruct Hs as [a Ha Ha'|v|b Hb|io c t e Hi Hc Ht He|io tag cs Hi Hcs|io c p b Hi Hc Hp Hb| | | | |].
      + cbn [upw fst snd]. unfold aden. apply Nat.eqb_neq in Ha. apply Nat.eqb_neq in Ha'. rewrite Ha, Ha'. cbn [fst snd].
        apply lift_lo. intros [] w'. reflexivity.
      + cbn [upw fst snd]. unfold yden. cbn [fst snd]. apply lift_lo. intros x w'.
        unfold env. cbn [upw fst snd]. destruct (envX (snd w') x (fst w')) as [x' more]. cbn [fst snd].
        destruct more; reflexivity.
      + apply IH2. exact Hb.
      + rewrite (Hinit io i w Hi). apply after_map. intros w1.
        cbn [upw fst snd]. unfold cden. apply Nat.eqb_neq in Hc. rewrite Hc. cbn [fst snd].
        apply lift_lo. intros bb w2. destruct bb; [apply IH2; exact Ht|].
        destruct He as [|eb Heb|x Hx]; [reflexivity|apply IH2; exact Heb|apply IH1; exact Hx].
      + rewrite (Hinit io i w Hi). apply after_map. intros w1. destruct tag as [t|].
        * cbn [upw fst snd]. unfold tden. cbn [fst snd]. apply lift_lo. intros tv w2.
          destruct (pick_clause kval tv cs) as [l|] eqn:Ep; [apply IH3; apply (Hpick tv cs Hcs l Ep)|].
          destruct (default_from cs) as [l|] eqn:Ed; [apply IH3; apply (Hdef cs Hcs l Ed)|reflexivity].
        * apply IH4; exact Hcs.
      + rewrite (Hinit io i w Hi). apply after_map. intros w1. apply IH5; assumption.
      + reflexivity.
      + reflexivity.
      + reflexivity.
      + reflexivity.
      + reflexivity.
    - (* exec_list *)
      intros l i w Hl. rewrite !exec_list_S. destruct Hl as [|x r Hx Hr]; [reflexivity|].
      rewrite (IH1 x i w Hx). apply after_map. intros w'. apply IH2. exact Hr.
    - (* exec_from *)
      intros l i w Hl. rewrite !exec_from_S. destruct Hl as [|[lab b] r [Hlab Hb] Hr]; [reflexivity|].
      cbn [snd] in Hb. rewrite (IH2 b i w Hb).
      destruct (execX_list n b w) as [[g w'|sv w'|w'|w' pv|]|]; try reflexivity.
      destruct g; try reflexivity. cbn [option_map mapc].
      destruct r as [|x r']; [reflexivity|]. apply IH3. exact Hr.
    - (* exec_pick *)
      intros a l i w Ha Hl. rewrite !exec_pick_S. destruct Hl as [|[lab b] r [Hlab Hb] Hr].
      + destruct (default_from a) as [d|] eqn:Ed; [apply IH3; apply (Hdef a Ha d Ed)|reflexivity].
      + cbn [fst] in Hlab. destruct Hlab as [|vs|c Hc].
        * apply IH4; assumption.
        * apply IH4; assumption.
        * cbn [upw fst snd]. unfold cden. apply Nat.eqb_neq in Hc. rewrite Hc. cbn [fst snd].
          apply lift_lo. intros bb w'. destruct bb; [|apply IH4; assumption].
          apply IH3. constructor; [split; [constructor; apply Nat.eqb_neq; exact Hc|exact Hb]|exact Hr].
    - (* exec_loop *)
      intros c p b i w Hc Hp Hb. rewrite !exec_loop_S. cbv zeta.
      assert (Hbody : forall w2,
        match execU_list n b (upw i w2) with
        | Some (CDone (GNormal | GContinue) w3) =>
            after_normal (match p with None => Some (CDone GNormal w3) | Some x => execU n x w3 end) (fun w4 => execU_loop n c p b w4)
        | Some (CDone GBreak w3) => Some (CDone GNormal w3)
        | other => other
        end = option_map (mapc i)
        match execX_list n b w2 with
        | Some (CDone (GNormal | GContinue) w3) =>
            after_normal (match p with None => Some (CDone GNormal w3) | Some x => execX n x w3 end) (fun w4 => execX_loop n c p b w4)
        | Some (CDone GBreak w3) => Some (CDone GNormal w3)
        | other => other
        end).
      { intros w2. rewrite (IH2 b i w2 Hb).
        destruct (execX_list n b w2) as [[g w3|sv w3|w3|w3 pv|]|]; try reflexivity.
        destruct g; try reflexivity; cbn [option_map mapc];
          rewrite (Hinit p i w3 Hp); apply after_map; intros w4; apply IH5; assumption. }
      destruct c as [cc|]; [|apply Hbody].
      cbn [upw fst snd]. unfold cden. assert (Hcc := Hc cc eq_refl). apply Nat.eqb_neq in Hcc. rewrite Hcc. cbn [fst snd].
      apply lift_lo. intros bb w2. destruct bb; [apply Hbody|reflexivity].
  Qed.

  (* ---------- the loop ---------- *)
  Variable B : list stmt.
  Hypothesis HB : Forall UserS B.

  (* SPEC of `for k, v (:)= range <collection with element readers es> { B }` *)
  Fixpoint range_spec (n : nat) (es : list (X -> K)) (w : W X) : option (compl X V P) :=
    match n with 0 => None | S n =>
      match es with
      | [] => Some (CDone GNormal w)
      | e :: r =>
          match execX_list n B (bind (e (fst w)) (fst w), snd w) with
          | Some (CDone (GNormal | GContinue) w') => range_spec n r w'
          | Some (CDone GBreak w') => Some (CDone GNormal w')
          | other => other
          end
      end
    end.

  (* the elements the iterator will deliver from state i *)
  Inductive iter_elems : I -> list (X -> K) -> Prop :=
  | ie_done i : snd (imn i) = false -> iter_elems i []
  | ie_next i r : snd (imn i) = true -> iter_elems (fst (imn i)) r -> iter_elems i (icur (fst (imn i)) :: r).

  Definition range_loop : stmt := SFor None (Some c_mn) None (SAtom a_bind :: B).

  Lemma bind_body n i w :
    execU_list (S (S n)) (SAtom a_bind :: B) (upw i w) =
      option_map (mapc i) (execX_list (S n) B (bind (icur i (fst w)) (fst w), snd w)).
  Proof.
    rewrite exec_list_S, exec_S. cbn [upw fst snd]. unfold aden. rewrite Nat.eqb_refl. cbn [lift after_normal fst snd].
    apply (proj1 (proj2 (frame (S n))) B i (bind (icur i (fst w)) (fst w), snd w) HB).
  Qed.

  Theorem range_loop_spec es : forall n i w c, iter_elems i es -> range_spec n es w = Some c ->
    exists i', execU_loop (n + 2) (Some c_mn) None (SAtom a_bind :: B) (upw i w) = Some (mapc i' c).
  Proof.
    induction es as [|e r IH]; intros n i w c Hie Hs.
    - inversion Hie as [i0 Hmn|]; subst. destruct n as [|n]; [discriminate|]. cbn [range_spec] in Hs. inversion Hs; subst.
      exists (fst (imn i)). replace (S n + 2) with (S (S (S n))) by lia. rewrite exec_loop_S. cbv zeta.
      cbn [upw fst snd]. unfold cden. rewrite Nat.eqb_refl. cbn [fst snd lift]. rewrite Hmn. destruct w; reflexivity.
    - inversion Hie as [|i0 r0 Hmn Hr]; subst. destruct n as [|n]; [discriminate|]. cbn [range_spec] in Hs.
      replace (S n + 2) with (S (S (S n))) by lia. rewrite exec_loop_S. cbv zeta.
      cbn [upw fst snd]. unfold cden at 1. rewrite Nat.eqb_refl. cbn [fst snd lift]. rewrite Hmn.
      change ((fst (imn i), fst w), snd w) with (upw (fst (imn i)) w).
      rewrite bind_body.
      destruct (execX_list n B (bind (icur (fst (imn i)) (fst w)) (fst w), snd w)) as [r1|] eqn:E; [|discriminate].
      rewrite (exec_list_mono adenX cdenX tdenX kval ydenX envX (n:=n) (m:=S n) B _ (Nat.le_succ_diag_r n) E).
      destruct r1 as [g w'|sv w'|w'|w' pv|];
        try (inversion Hs; subst; exists (fst (imn i)); reflexivity).
      destruct g; try (inversion Hs; subst; exists (fst (imn i)); reflexivity).
      + cbn [option_map mapc after_normal]. replace (S (S n)) with (n + 2) by lia.
        apply IH; [exact Hr|exact Hs].
      + cbn [option_map mapc after_normal]. replace (S (S n)) with (n + 2) by lia.
        apply IH; [exact Hr|exact Hs].
  Qed.

  (* the statement list the rewriter emits, followed by more user code *)
  Variable rest : list stmt.
  Hypothesis Hrest : Forall UserS rest.
  Hypothesis Hdistinct : a_init <> a_bind.

  Definition range_stmts : list stmt := SAtom a_init :: range_loop :: rest.

  (* the source program in terms of the user world only: the range statement, then rest *)
  Definition range_then (n : nat) (es : list (X -> K)) (w : W X) : option (compl X V P) :=
    after_normal (range_spec n es w) (fun w' => execX_list n rest w').

  Theorem range_stmts_spec es n i w c :
    iter_elems (inew (fst w)) es -> range_then n es w = Some c ->
    exists i' m, execU_list m range_stmts (upw i w) = Some (mapc i' c).
  Proof.
    intros Hie Hc. unfold range_then in Hc.
    destruct (range_spec n es w) as [r1|] eqn:E; [|discriminate].
    destruct (range_loop_spec es n (inew (fst w)) w r1 Hie E) as [i1 Hl].
    assert (Hstart : forall m, execU (S m) (SAtom a_init) (upw i w) = Some (CDone GNormal (upw (inew (fst w)) w))).
    { intros m. rewrite exec_S. cbn [upw fst snd]. unfold aden.
      destruct (Nat.eqb a_init a_bind) eqn:E1; [apply Nat.eqb_eq in E1; contradiction|].
      rewrite Nat.eqb_refl. reflexivity. }
    assert (Hloop : execU (S (n + 2)) range_loop (upw (inew (fst w)) w) = Some (mapc i1 r1)).
    { unfold range_loop. rewrite exec_S. cbn [after_normal]. exact Hl. }
    destruct r1 as [g w1|sv w1|w1|w1 pv|].
    2-5: (exists i1, (S (S (S (n + 2)))); unfold range_stmts; rewrite exec_list_S, Hstart; cbn [after_normal];
          rewrite exec_list_S, Hloop; cbn [after_normal] in Hc; inversion Hc; subst; reflexivity).
    destruct g.
    2-5: (exists i1, (S (S (S (n + 2)))); unfold range_stmts; rewrite exec_list_S, Hstart; cbn [after_normal];
          rewrite exec_list_S, Hloop; cbn [after_normal] in Hc; inversion Hc; subst; reflexivity).
    cbn [after_normal] in Hc.
    exists i1, (S (S (S (n + 2)))). unfold range_stmts. rewrite exec_list_S, Hstart. cbn [after_normal].
    rewrite exec_list_S, Hloop. cbn [mapc after_normal].
    rewrite (proj1 (proj2 (frame (S (n + 2)))) rest i1 w1 Hrest).
    assert (Hle : n <= S (n + 2)) by lia.
    rewrite (exec_list_mono adenX cdenX tdenX kval ydenX envX (n:=n) (m:=S (n + 2)) rest w1 Hle Hc).
    reflexivity.
  Qed.
End RangeLoop.

(* ---------- the iterators of seq/iter.go deliver the elements of Go's range statement ---------- *)

(* an iterator whose Current does not read the user world: what [drain] collects is what it delivers *)
Lemma drain_elems I X K (imn : I -> I * bool) (cur : I -> K) :
  forall fuel i, length (fst (drain imn cur fuel i)) < fuel ->
    iter_elems I X K imn (fun i _ => cur i) i (map (fun a _ => a) (fst (drain imn cur fuel i))).
Proof.
  induction fuel as [|f IH]; intros i Hl; [cbn in Hl; lia|].
  cbn [drain] in *. destruct (imn i) as [i' ok] eqn:E. destruct ok.
  - destruct (drain imn cur f i') as [l s''] eqn:D. cbn [fst length map] in *.
    replace i' with (fst (imn i)) by (rewrite E; reflexivity).
    apply (ie_next I X K imn (fun i _ => cur i)).
    + rewrite E. reflexivity.
    + rewrite E. cbn [fst]. specialize (IH i'). rewrite D in IH. apply IH. cbn [fst]. lia.
  - cbn [fst map]. apply ie_done. rewrite E. reflexivity.
Qed.

(* integer: `for k := range n` visits 0 .. n-1 *)
Theorem int_iter_elems X (n : Z) :
  iter_elems intIter X Z int_moveNext (fun i _ => int_current i) (new_int n) (map (fun a _ => a) (range_int n)).
Proof.
  rewrite <- (int_iter_correct n (fuel:=S (Z.to_nat n))) by lia.
  apply drain_elems. rewrite int_iter_correct by lia. unfold range_int. rewrite map_length, seq_length. lia.
Qed.

(* string: the (byte offset, rune) pairs of the range statement, for every byte string *)
Theorem str_iter_elems X (s : list Z) :
  iter_elems strIter X (nat * Z) str_moveNext (fun i _ => str_current i) (new_str s) (map (fun a _ => a) (range_string s)).
Proof.
  assert (Hlen : forall fuel off bytes, length (range_string_from fuel off bytes) <= fuel).
  { induction fuel as [|f IH]; intros off bytes; [cbn; lia|]. cbn [range_string_from].
    destruct bytes as [|b r]; [cbn; lia|].
    destruct (Utf8.decode_rune (b :: r)) as [rr ww]. cbn [length]. specialize (IH (off + ww) (skipn ww (b :: r))). lia. }
  rewrite <- (str_iter_correct s (fuel:=S (length s))) by lia.
  apply drain_elems. rewrite str_iter_correct by lia. unfold range_string. specialize (Hlen (length s) 0 s). lia.
Qed.

(* slice (and array, which the rewriter slices): the length is fixed before the loop, element j is
   read from the backing store as it is when iteration j starts *)
Theorem slice_iter_elems X E (zero : E) (get : X -> list E) (len : nat) :
  forall m i, i + m = len ->
    iter_elems slIter X (Z * E) sl_moveNext (fun it x => sl_current zero it (get x))
               {| sl_len := len; sl_idx := Z.of_nat i - 1 |}
               (map (fun j x => (Z.of_nat j, nth j (get x) zero)) (seq i m)).
Proof.
  induction m as [|m IH]; intros i Him.
  - cbn [seq map]. apply ie_done. unfold sl_moveNext. cbn [snd sl_idx sl_len]. apply Z.ltb_ge. lia.
  - cbn [seq map].
    assert (Hmn : sl_moveNext {| sl_len := len; sl_idx := Z.of_nat i - 1 |} = ({| sl_len := len; sl_idx := Z.of_nat (S i) - 1 |}, true)).
    { unfold sl_moveNext. cbn [sl_idx sl_len]. f_equal; [f_equal; lia|apply Z.ltb_lt; lia]. }
    assert (Hcur : (fun x : X => (Z.of_nat i, nth i (get x) zero)) =
                   (fun it x => sl_current zero it (get x)) (fst (sl_moveNext {| sl_len := len; sl_idx := Z.of_nat i - 1 |}))).
    { rewrite Hmn. cbn [fst]. unfold sl_current. cbn [sl_idx]. replace (Z.of_nat (S i) - 1)%Z with (Z.of_nat i) by lia.
      rewrite Nat2Z.id. reflexivity. }
    rewrite Hcur. apply ie_next.
    + rewrite Hmn. reflexivity.
    + rewrite Hmn. cbn [fst]. apply IH. lia.
Qed.
