(* Rel.v — fuel-free (relational) reading of Sem.v under the generalised callback
   semantics, with decomposition and composition lemmas per construct.  "EX l w x"
   means: some amount of fuel makes exec_list return x.  Monotonicity in fuel makes
   these relations compositional, which keeps the rewriter proofs free of fuel
   arithmetic. *)
From Coq Require Import List Arith Bool Lia.
From Verif Require Import Base Syntax Sem SemLemmas RwBase.
Import ListNotations.

Set Implicit Arguments.

Section R.
  Variables U V P : Type.
  Variable aden : nat -> U -> outcome U P unit.
  Variable cden : nat -> U -> outcome U P bool.
  Variable tden : nat -> U -> outcome U P nat.
  Variable kval : nat -> nat.
  Variable yden : nat -> U -> outcome U P V.
  Variable env : nat -> V -> U -> U * bool.

  Notation compl := (compl U V P).
  Notation W := (W U).
  Notation exec := (exec aden cden tden kval yden env).
  Notation ex := (exec_list aden cden tden kval yden env).
  Notation exfrom := (exec_from aden cden tden kval yden env).
  Notation expick := (exec_pick aden cden tden kval yden env).
  Notation exloop := (exec_loop aden cden tden kval yden env).
  Notation rung := (run aden cden tden kval yden env false).
  Notation callg := (call aden cden tden kval yden env false).
  Notation runloop := (run_loop aden cden tden kval yden env false).
  Notation N := (N aden cden tden kval yden env).

  Definition EXS (s : stmt) (w : W) (x : compl) : Prop := exists n, exec n s w = Some x.
  Definition EX (l : list stmt) (w : W) (x : compl) : Prop := exists n, ex n l w = Some x.
  Definition RUN (sv : sval V) (w : W) (r : compl) : Prop := exists n, rung n sv w = Some r.
  Definition CALL (t : thunk) (w : W) (r : compl) : Prop := exists n, callg n t w = Some r.
  Definition TM (l : list stmt) (w : W) (r : compl) : Prop := exists n, N n l w = Some r.
  Definition LOOP c p b (w : W) (x : compl) : Prop := exists n, exloop n c p b w = Some x.
  Definition RLOOP c p body sk (w : W) (r : compl) : Prop := exists n, runloop n c p body sk w = Some r.

  (* "y, and if y is normal completion then K" *)
  Definition after (y : compl) (K : W -> Prop) (done : Prop) : Prop :=
    match y with CDone GNormal w' => K w' | _ => done end.

  (* the outcome of a native completion in tail position *)
  Definition normR (x : compl) (r : compl) : Prop :=
    match x with CRet sv w' => RUN sv w' r | _ => r = x end.

  (* ---- lists ---- *)
  Lemma EX_nil w : EX [] w (CDone GNormal w).
  Proof. exists 1. reflexivity. Qed.

  Lemma EX_nil_inv w x : EX [] w x -> x = CDone GNormal w.
  Proof. intros [[|n] H]; [discriminate|]. cbn in H. inversion H; reflexivity. Qed.

  Lemma EX_cons_inv s l w x : EX (s :: l) w x ->
    exists y, EXS s w y /\ after y (fun w' => EX l w' x) (x = y).
  Proof.
    intros [[|n] H]; [discriminate|]. rewrite exec_list_S in H. unfold after_normal in H.
    destruct (exec n s w) as [y|] eqn:E; [|discriminate]. exists y. split; [exists n; exact E|].
    destruct y as [g w'| | | |]; cbn; try (inversion H; reflexivity).
    destruct g; try (inversion H; reflexivity). exists n. exact H.
  Qed.

  Lemma EX_cons s l w x y : EXS s w y -> after y (fun w' => EX l w' x) (x = y) -> EX (s :: l) w x.
  Proof.
    intros [n1 H1] H2.
    destruct y as [g w'|sv w'|w'|w' pv|]; cbn in H2.
    1: destruct g.
    1: { destruct H2 as [n2 H2]. exists (S (n1 + n2)). rewrite exec_list_S.
         rewrite (@exec_mono _ _ _ aden cden tden kval yden env n1 (n1 + n2) s w _ (Nat.le_add_r _ _) H1). cbn.
         eapply exec_list_mono; [|exact H2]. lia. }
    all: subst x; exists (S n1); rewrite exec_list_S, H1; reflexivity.
  Qed.

  Lemma EX_single s w y : EXS s w y -> EX [s] w y.
  Proof.
    intros H. eapply EX_cons; [exact H|]. destruct y as [g w'| | | |]; cbn; auto. destruct g; cbn; auto. apply EX_nil.
  Qed.

  Lemma EX_single_inv s w x : EX [s] w x -> EXS s w x.
  Proof.
    intros H. destruct (EX_cons_inv H) as [y [Hy Ha]].
    destruct y as [g w'| | | |]; cbn in Ha; try (subst; exact Hy). destruct g; try (subst; exact Hy).
    apply EX_nil_inv in Ha. subst. exact Hy.
  Qed.

  Lemma EX_app_inv l1 : forall l2 w x, EX (l1 ++ l2) w x ->
    exists y, EX l1 w y /\ after y (fun w' => EX l2 w' x) (x = y).
  Proof.
    induction l1 as [|s l1 IH]; intros l2 w x H; cbn [app] in H.
    - exists (CDone GNormal w). split; [apply EX_nil|exact H].
    - destruct (EX_cons_inv H) as [y [Hy Ha]].
      destruct y as [g w'|sv w'|w'|w' pv|]; cbn in Ha.
      1: destruct g.
      1: { destruct (IH l2 w' x Ha) as [z [Hz Hb]]. exists z. split; [|exact Hb].
           eapply EX_cons; [exact Hy|]. cbn.
           destruct z as [g w''| | | |]; cbn in Hb; try exact Hz. }
      all: subst x; eexists; split; [eapply EX_cons; [exact Hy|reflexivity]|reflexivity].
  Qed.

  Lemma EX_app l1 : forall l2 w x y, EX l1 w y -> after y (fun w' => EX l2 w' x) (x = y) -> EX (l1 ++ l2) w x.
  Proof.
    induction l1 as [|s l1 IH]; intros l2 w x y H1 H2; cbn [app].
    - apply EX_nil_inv in H1. subst y. exact H2.
    - destruct (EX_cons_inv H1) as [z [Hz Ha]]. eapply EX_cons; [exact Hz|].
      destruct z as [g w'|sv w'|w'|w' pv|]; cbn in Ha |- *.
      1: destruct g; cbn.
      1: { eapply IH; eauto. }
      all: subst y; cbn in H2; exact H2.
  Qed.

  (* ---- determinism ---- *)
  Lemma EX_det l w x x' : EX l w x -> EX l w x' -> x = x'.
  Proof.
    intros [n H] [m H'].
    pose proof (@exec_list_mono _ _ _ aden cden tden kval yden env n (n + m) l w x (Nat.le_add_r _ _) H) as A.
    pose proof (@exec_list_mono _ _ _ aden cden tden kval yden env m (n + m) l w x' ltac:(lia) H') as B.
    congruence.
  Qed.
  Lemma EXS_det s w x x' : EXS s w x -> EXS s w x' -> x = x'.
  Proof.
    intros [n H] [m H'].
    pose proof (@exec_mono _ _ _ aden cden tden kval yden env n (n + m) s w x (Nat.le_add_r _ _) H) as A.
    pose proof (@exec_mono _ _ _ aden cden tden kval yden env m (n + m) s w x' ltac:(lia) H') as B.
    congruence.
  Qed.
  Lemma RUN_det sv w r r' : RUN sv w r -> RUN sv w r' -> r = r'.
  Proof.
    intros [n H] [m H'].
    pose proof (@run_mono _ _ _ aden cden tden kval yden env false n (n + m) sv w r (Nat.le_add_r _ _) H) as A.
    pose proof (@run_mono _ _ _ aden cden tden kval yden env false m (n + m) sv w r' ltac:(lia) H') as B.
    congruence.
  Qed.

  (* ---- tail meaning ---- *)
  Lemma TM_inv l w r : TM l w r -> exists x, EX l w x /\ normR x r.
  Proof.
    intros [n H]. unfold RwBase.N in H. destruct (ex n l w) as [x|] eqn:E; [|discriminate].
    exists x. split; [exists n; exact E|].
    destruct x as [g w'|sv w'|w'|w' pv|]; cbn in *; try (inversion H; reflexivity). exists n. exact H.
  Qed.

  Lemma TM_intro l w x r : EX l w x -> normR x r -> TM l w r.
  Proof.
    intros [n H] Hr. destruct x as [g w'|sv w'|w'|w' pv|]; cbn in Hr.
    2:{ destruct Hr as [m Hm]. exists (n + m). unfold RwBase.N.
        rewrite (@exec_list_mono _ _ _ aden cden tden kval yden env n (n + m) l w _ (Nat.le_add_r _ _) H). cbn.
        eapply run_mono; [|exact Hm]. lia. }
    all: subst r; exists n; unfold RwBase.N; rewrite H; reflexivity.
  Qed.

  (* ---- seq values ---- *)
  Lemma RUN_sig g w : RUN (VSig g) w (CDone g w).
  Proof. exists 1. reflexivity. Qed.
  Lemma RUN_sig_inv g w r : RUN (VSig g) w r -> r = CDone g w.
  Proof. intros [[|n] H]; [discriminate|]. cbn in H. inversion H; reflexivity. Qed.

  Lemma CALL_lit l w r : CALL (TLit l) w r <-> TM l w r.
  Proof.
    split.
    - intros [[|n] H]; [discriminate|]. exists n. unfold RwBase.N, RwBase.norm. rewrite call_S in H.
      destruct (ex n l w) as [[g w'|sv w'|w'|w' pv|]|]; exact H.
    - intros [n H]. exists (S n). rewrite call_S. unfold RwBase.N, RwBase.norm in H.
      destruct (ex n l w) as [[g w'|sv w'|w'|w' pv|]|]; exact H.
  Qed.

  Lemma RUN_delay t w r : RUN (VDelay t) w r <-> CALL t w r.
  Proof.
    split.
    - intros [[|n] H]; [discriminate|]. rewrite run_S in H. exists n. exact H.
    - intros [n H]. exists (S n). rewrite run_S. exact H.
  Qed.

  Lemma RUN_combine_inv a b w r : RUN (VCombine a b) w r ->
    exists y, RUN a w y /\ after y (fun w' => RUN b w' r) (r = y).
  Proof.
    intros [[|n] H]; [discriminate|]. rewrite run_S in H. unfold after_normal in H.
    destruct (rung n a w) as [y|] eqn:E; [|discriminate]. exists y. split; [exists n; exact E|].
    destruct y as [g w'| | | |]; cbn; try (inversion H; reflexivity).
    destruct g; try (inversion H; reflexivity). exists n. exact H.
  Qed.

  Lemma RUN_combine a b w r y : RUN a w y -> after y (fun w' => RUN b w' r) (r = y) -> RUN (VCombine a b) w r.
  Proof.
    intros [n1 H1] H2. destruct y as [g w'|sv w'|w'|w' pv|]; cbn in H2.
    1: destruct g.
    1: { destruct H2 as [n2 H2]. exists (S (n1 + n2)). rewrite run_S.
         rewrite (@run_mono _ _ _ aden cden tden kval yden env false n1 (n1 + n2) a w _ (Nat.le_add_r _ _) H1). cbn.
         eapply run_mono; [|exact H2]. lia. }
    all: subst r; exists (S n1); rewrite run_S, H1; reflexivity.
  Qed.

  Lemma RUN_bind v t w r :
    RUN (VBind v t) w r <->
    (let '(u', more) := env (snd w) v (fst w) in
     if more then CALL t (u', S (snd w)) r else r = CStop (u', S (snd w))).
  Proof.
    split.
    - intros [[|n] H]; [discriminate|]. rewrite run_S in H. destruct (env (snd w) v (fst w)) as [u' more].
      destruct more; [exists n; exact H|inversion H; reflexivity].
    - intros H. destruct (env (snd w) v (fst w)) as [u' more] eqn:Ee. destruct more.
      + destruct H as [n H]. exists (S n). rewrite run_S, Ee. exact H.
      + subst r. exists 1. rewrite run_S, Ee. reflexivity.
  Qed.
End R.
