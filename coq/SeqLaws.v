(* SeqLaws.v — laws of the reference interpreter (C08, second sentence).  They are
   stated on [rrun]/[rsig]/[rloop]; the refinement theorem transfers them to the
   machine.  Laws that hold "up to fuel" are stated with explicit fuel offsets. *)
From Verif Require Import Base SeqMachine SeqRef.

Set Implicit Arguments.

Section Laws.
  Variables U V P : Type.
  Variable zeroV : V.
  Notation seqv := (seqv U V P).
  Notation frame := (frame U V P).

  (* Normal is a left unit of Combine *)
  Lemma combine_normal_l n (s : seqv) (ks : list frame) u :
    rrun zeroV (S (S (S n))) (SCombine (SOfK KNormal) s) ks u = rrun zeroV n s ks u.
  Proof. reflexivity. Qed.

  (* Break / Continue / Return (and ReturnValue) skip the rest of a Combine *)
  Lemma combine_skip n t (s : seqv) (ks : list frame) u :
    t <> KNormal ->
    rrun zeroV (S (S (S n))) (SCombine (SOfK t) s) ks u = rsig zeroV n t zeroV ks u.
  Proof. intros H. destruct t; try congruence; reflexivity. Qed.

  Lemma combine_skip_retv n v (s : seqv) (ks : list frame) u :
    rrun zeroV (S (S (S n))) (SCombine (SRetV v) s) ks u = rsig zeroV n KReturn v ks u.
  Proof. reflexivity. Qed.

  (* a loop does not evaluate its post statement before the first iteration ... *)
  Lemma for_first_iteration n c p (b : seqv) (ks : list frame) u :
    rrun zeroV (S (S n)) (SFor c p b) ks u =
      match evalc c n u with
      | None => None
      | Some (Ok u' true) => rrun zeroV n b (KLoop c p b :: ks) u'
      | Some (Ok u' false) => rsig zeroV n KNormal zeroV ks u'
      | Some (Panic u' pv) => Some (RPanic u' pv)
      | Some Stuck => Some RStuck
      end.
  Proof. reflexivity. Qed.

  (* ... and evaluates it, then the condition, after Normal and after Continue *)
  Lemma loop_next_iteration n t v c p (b : seqv) (ks : list frame) u :
    t = KNormal \/ t = KContinue ->
    rsig zeroV (S (S n)) t v (KLoop c p b :: ks) u =
      match evalp p n u with
      | None => None
      | Some (Panic u1 pv) => Some (RPanic u1 pv)
      | Some Stuck => Some RStuck
      | Some (Ok u1 _) =>
          match evalc c n u1 with
          | None => None
          | Some (Ok u' true) => rrun zeroV n b (KLoop c p b :: ks) u'
          | Some (Ok u' false) => rsig zeroV n KNormal zeroV ks u'
          | Some (Panic u' pv) => Some (RPanic u' pv)
          | Some Stuck => Some RStuck
          end
      end.
  Proof. intros [->| ->]; reflexivity. Qed.

  (* Break leaves the loop, which then completes normally; Return carries its value out *)
  Lemma loop_break n v c p (b : seqv) (ks : list frame) u :
    rsig zeroV (S n) KBreak v (KLoop c p b :: ks) u = rsig zeroV n KNormal zeroV ks u.
  Proof. reflexivity. Qed.
  Lemma loop_return n v c p (b : seqv) (ks : list frame) u :
    rsig zeroV (S n) KReturn v (KLoop c p b :: ks) u = rsig zeroV n KReturn v ks u.
  Proof. reflexivity. Qed.

  (* the final result is the value carried by the completion signal *)
  Lemma done_result n t v u : rsig zeroV (S n) t v (@nil frame) u = Some (RDone v u).
  Proof. reflexivity. Qed.
End Laws.
