(* OptRel.v — the rewriting steps of the optimiser as a relation on generated code,
   and their semantic preservation (for both readings of callbacks):
     Delay(func() Seq { return X }) ~> X      when building X has no effect and cannot fail
                                              ([pureb]: nested Delay / Combine / For / signal
                                              constructors and Bind of a literal);
     func() Seq { return sig() }   ~> sig     for the signal constructors;
     func() bool { return f() }    ~> f       for loop conditions with a stable callee
                                              (hypothesis [Heta]: calling the function value
                                              later is the same as evaluating the call). *)
From Coq Require Import List Arith Bool Lia.
From Verif Require Import Base Syntax Sem SemLemmas.
From Verif Require Import Opt.
Import ListNotations.

Set Implicit Arguments.

Section R.
  Variable is_lit : nat -> bool.
  Variable eta_cond : nat -> option nat.

  Notation pureb := (pureb is_lit).

  Inductive oopt {A} (R : A -> A -> Prop) : option A -> option A -> Prop :=
  | oo_none : oopt R None None
  | oo_some a b : R a b -> oopt R (Some a) (Some b).

  Definition oclause (R : list stmt -> list stmt -> Prop) (a b : clabel * list stmt) : Prop :=
    fst a = fst b /\ R (snd a) (snd b).

  Inductive ocnd : option cnd -> option cnd -> Prop :=
  | oc_same c : ocnd c c
  | oc_eta e f : eta_cond e = Some f -> ocnd (Some (CExp e)) (Some (CFun f)).

  Inductive osr : stmt -> stmt -> Prop :=
  | os_refl s : osr s s
  | os_atom a : osr (SAtom a) (SAtom a)
  | os_yield v : osr (SYield v) (SYield v)
  | os_block b b' : Forall2 osr b b' -> osr (SBlock b) (SBlock b')
  | os_if i i' c t t' e e' : oopt osr i i' -> Forall2 osr t t' -> oer e e' -> osr (SIf i c t e) (SIf i' c t' e')
  | os_switch i i' tag cs cs' : oopt osr i i' -> Forall2 (oclause (Forall2 osr)) cs cs' -> osr (SSwitch i tag cs) (SSwitch i' tag cs')
  | os_for i i' c p p' b b' : oopt osr i i' -> oopt osr p p' -> Forall2 osr b b' -> osr (SFor i c p b) (SFor i' c p' b')
  | os_break : osr SBreak SBreak
  | os_continue : osr SContinue SContinue
  | os_return : osr SReturn SReturn
  | os_fallthrough : osr SFallthrough SFallthrough
  | os_ret e e' : oxr e e' -> osr (SRet e) (SRet e')
  with oer : els -> els -> Prop :=
  | oe_none : oer ENone ENone
  | oe_else b b' : Forall2 osr b b' -> oer (EElse b) (EElse b')
  | oe_elif s s' : osr s s' -> oer (EElif s) (EElif s')
  with oxr : sexp -> sexp -> Prop :=
  | ox_refl e : oxr e e
  | ox_bind v t t' : otr t t' -> oxr (XBind v t) (XBind v t')
  | ox_delay t t' : otr t t' -> oxr (XDelay t) (XDelay t')
  | ox_elide t x' : otr t (TLit [SRet x']) -> pureb x' = true -> oxr (XDelay t) x'
  | ox_combine a a' b b' : oxr a a' -> oxr b b' -> oxr (XCombine a b) (XCombine a' b')
  | ox_for c c' p p' body body' : ocnd c c' -> oopt osr p p' -> oxr body body' -> oxr (XFor c p body) (XFor c' p' body')
  | ox_normal : oxr XNormal XNormal
  | ox_break : oxr XBreak XBreak
  | ox_continue : oxr XContinue XContinue
  | ox_return : oxr XReturn XReturn
  with otr : thunk -> thunk -> Prop :=
  | ot_refl t : otr t t
  | ot_lit l l' : Forall2 osr l l' -> otr (TLit l) (TLit l')
  | ot_eta l x : Forall2 osr l [SRet x] -> is_sigx x = true -> otr (TLit l) (TSig x)
  | ot_sig x : otr (TSig x) (TSig x).

  Section S.
    Variables U V P : Type.
    Variable aden : nat -> U -> outcome U P unit.
    Variable cden : nat -> U -> outcome U P bool.
    Variable tden : nat -> U -> outcome U P nat.
    Variable kval : nat -> nat.
    Variable yden : nat -> U -> outcome U P V.
    Variable env : nat -> V -> U -> U * bool.
    Variable strict : bool.
    Variable litval : nat -> V.
    Hypothesis Hlit : forall v u, is_lit v = true -> yden v u = Ok u (litval v).
    Hypothesis Heta : forall e f u, eta_cond e = Some f -> cden e u = cden f u.

    Notation compl := (compl U V P).
    Notation W := (W U).
    Notation exec := (exec aden cden tden kval yden env).
    Notation ex := (exec_list aden cden tden kval yden env).
    Notation exfrom := (exec_from aden cden tden kval yden env).
    Notation expick := (exec_pick aden cden tden kval yden env).
    Notation exloop := (exec_loop aden cden tden kval yden env).
    Notation run := (run aden cden tden kval yden env strict).
    Notation call := (call aden cden tden kval yden env strict).
    Notation run_loop := (run_loop aden cden tden kval yden env strict).

    (* the value a pure expression builds, in any world *)
    Fixpoint pval (x : sexp) : sval V :=
      match x with
      | XBind v t => VBind (litval v) t
      | XDelay t => VDelay t
      | XCombine a b => VCombine (pval a) (pval b)
      | XFor c p body => VFor c p (pval body)
      | XNormal => VSig GNormal
      | XBreak => VSig GBreak
      | XContinue => VSig GContinue
      | XReturn => VSig GReturn
      end.

    Lemma pure_build x w : pureb x = true -> build yden x w = Ok (fst w) (pval x).
    Proof.
      revert w. induction x as [v t|t|a IHa b IHb|c p body IHb| | | |]; intros w H; cbn [pureb build pval] in *; try reflexivity.
      - rewrite (@Hlit v (fst w) H). reflexivity.
      - apply andb_prop in H. destruct H as [H1 H2]. rewrite (IHa w H1). cbn [fst snd]. rewrite (IHb (fst w, snd w) H2). reflexivity.
      - rewrite (IHb w H). reflexivity.
    Qed.

    Inductive ovr : sval V -> sval V -> Prop :=
    | ov_refl sv : ovr sv sv
    | ov_bind v t t' : otr t t' -> ovr (VBind v t) (VBind v t')
    | ov_delay t t' : otr t t' -> ovr (VDelay t) (VDelay t')
    | ov_elide t x' : otr t (TLit [SRet x']) -> pureb x' = true -> ovr (VDelay t) (pval x')
    | ov_combine a a' b b' : ovr a a' -> ovr b b' -> ovr (VCombine a b) (VCombine a' b')
    | ov_for c c' p p' body body' : ocnd c c' -> oopt osr p p' -> ovr body body' -> ovr (VFor c p body) (VFor c' p' body')
    | ov_sig g : ovr (VSig g) (VSig g).

    Inductive orc : compl -> compl -> Prop :=
    | or_same x : orc x x
    | or_ret sv sv' w : ovr sv sv' -> orc (CRet sv w) (CRet sv' w).

    Lemma build_orel e e' w : oxr e e' ->
      match build yden e w with
      | Ok u sv => exists sv', build yden e' w = Ok u sv' /\ ovr sv sv'
      | Panic u pv => build yden e' w = Panic u pv
      | Stuck => build yden e' w = Stuck
      end.
    Proof.
      intros H. revert w. induction H; intros w; cbn [build].
      - destruct (build yden e w); eauto using ovr.
      - destruct (yden v (fst w)); eauto using ovr.
      - eauto using ovr.
      - rewrite (pure_build x' w H0). eauto using ovr.
      - specialize (IHoxr1 w). destruct (build yden a w) as [u a1|u pv|].
        + destruct IHoxr1 as [a1' [-> Ha]]. specialize (IHoxr2 (u, snd w)).
          destruct (build yden b (u, snd w)) as [u' b1|u' pv|].
          * destruct IHoxr2 as [b1' [-> Hb]]. eauto using ovr.
          * rewrite IHoxr2. reflexivity.
          * rewrite IHoxr2. reflexivity.
        + rewrite IHoxr1. reflexivity.
        + rewrite IHoxr1. reflexivity.
      - specialize (IHoxr w). destruct (build yden body w) as [u b1|u pv|].
        + destruct IHoxr as [b1' [-> Hb]]. eauto using ovr.
        + rewrite IHoxr. reflexivity.
        + rewrite IHoxr. reflexivity.
      - eauto using ovr.
      - eauto using ovr.
      - eauto using ovr.
      - eauto using ovr.
    Qed.

    Notation oclauses := (Forall2 (oclause (Forall2 osr))).

    Lemma pick_clause_orel tv cs cs' : oclauses cs cs' ->
      match pick_clause kval tv cs, pick_clause kval tv cs' with
      | Some d, Some d' => oclauses d d'
      | None, None => True
      | _, _ => False
      end.
    Proof.
      induction 1 as [|[lab b] [lab' b'] r r' [Hl Hb] Hr IH]; cbn; auto. cbn in Hl. subst lab'.
      destruct (clause_matches kval lab tv); [constructor; [split; auto|auto]|exact IH].
    Qed.

    Lemma default_from_orel cs cs' : oclauses cs cs' ->
      match default_from cs, default_from cs' with
      | Some d, Some d' => oclauses d d'
      | None, None => True
      | _, _ => False
      end.
    Proof.
      induction 1 as [|[lab b] [lab' b'] r r' [Hl Hb] Hr IH]; cbn; auto. cbn in Hl. subst lab'.
      destruct lab; [constructor; [split; auto|auto]|exact IH|exact IH].
    Qed.

    Lemma sig_build x : is_sigx x = true -> exists g, forall w, build yden x w = Ok (fst w) (VSig g).
    Proof. destruct x; try discriminate; intros _; cbn; eauto. Qed.

    Ltac inv H := inversion H; subst; clear H.

    Lemma opt_sem n :
      (forall s s' w x, osr s s' -> exec n s w = Some x -> exists x', exec n s' w = Some x' /\ orc x x') /\
      (forall l l' w x, Forall2 osr l l' -> ex n l w = Some x -> exists x', ex n l' w = Some x' /\ orc x x') /\
      (forall cs cs' w x, oclauses cs cs' -> exfrom n cs w = Some x -> exists x', exfrom n cs' w = Some x' /\ orc x x') /\
      (forall a a' l l' w x, oclauses a a' -> oclauses l l' -> expick n a l w = Some x ->
          exists x', expick n a' l' w = Some x' /\ orc x x') /\
      (forall c p p' b b' w x, oopt osr p p' -> Forall2 osr b b' -> exloop n c p b w = Some x ->
          exists x', exloop n c p' b' w = Some x' /\ orc x x') /\
      (forall sv sv' w r, ovr sv sv' -> run n sv w = Some r -> run n sv' w = Some r) /\
      (forall t t' w r, otr t t' -> call n t w = Some r -> call n t' w = Some r) /\
      (forall c c' p p' body body' sk w r, ocnd c c' -> oopt osr p p' -> ovr body body' ->
          run_loop n c p body sk w = Some r -> run_loop n c' p' body' sk w = Some r).
    Proof.
      induction n as [|n [IHE [IHL [IHF [IHP [IHLP [IHR [IHC IHRL]]]]]]]].
      { repeat split; intros; discriminate. }
      assert (Hafter : forall x x' (f f' : W -> option compl) y,
                orc x x' ->
                (forall w1 y1, f w1 = Some y1 -> exists y1', f' w1 = Some y1' /\ orc y1 y1') ->
                after_normal (Some x) f = Some y -> exists y', after_normal (Some x') f' = Some y' /\ orc y y').
      { intros x x' f f' y Hc Hf Hy. inversion Hc; subst.
        - destruct x' as [g w1| | | |]; cbn in *; try (inv Hy; eexists; split; [reflexivity|constructor]).
          destruct g; try (inv Hy; eexists; split; [reflexivity|constructor]). apply Hf. exact Hy.
        - cbn in *. inv Hy. eexists. split; [reflexivity|exact Hc]. }
      assert (Hlift : forall A (o : outcome U P A) k (f f' : A -> W -> option compl) y,
                (forall a w1 y1, f a w1 = Some y1 -> exists y1', f' a w1 = Some y1' /\ orc y1 y1') ->
                lift o k f = Some y -> exists y', lift o k f' = Some y' /\ orc y y').
      { intros A o k f f' y Hf Hy. unfold lift in *. destruct o.
        - apply Hf. exact Hy.
        - inv Hy. eexists. split; [reflexivity|constructor].
        - inv Hy. eexists. split; [reflexivity|constructor]. }
      assert (Hopt : forall i i' w y, oopt osr i i' ->
                match i with None => Some (CDone GNormal w) | Some x0 => exec n x0 w end = Some y ->
                exists y', match i' with None => Some (CDone GNormal w) | Some x0 => exec n x0 w end = Some y' /\ orc y y').
      { intros i i' w y Ho Hy. inversion Ho; subst; [eexists; split; [exact Hy|constructor]|]. eapply IHE; eauto. }
      repeat split.
      - (* statements *)
        intros s s' w x Hs Hx. rewrite exec_S in Hx.
        inversion Hs; subst; rewrite exec_S; try (eexists; split; [exact Hx|constructor]; fail).
        + eapply IHL; eauto.
        + (* if *)
          destruct (match i with None => Some (CDone GNormal w) | Some x0 => exec n x0 w end) as [yi|] eqn:Ei; [|discriminate].
          match goal with Ho : oopt _ i i' |- _ => destruct (Hopt i i' w yi Ho Ei) as [yi' [-> Hci]] end.
          eapply Hafter; [exact Hci| |exact Hx].
          intros w1 y1 HH1. eapply Hlift; [|exact HH1]. intros bb w2 y2 HH2. cbv beta in HH2 |- *.
          destruct bb; [eapply IHL; eauto|].
          match goal with He : oer _ _ |- _ => inversion He; subst end.
          * inv HH2. eexists. split; [reflexivity|constructor].
          * eapply IHL; eauto.
          * eapply IHE; eauto.
        + (* switch *)
          destruct (match i with None => Some (CDone GNormal w) | Some x0 => exec n x0 w end) as [yi|] eqn:Ei; [|discriminate].
          match goal with Ho : oopt _ i i' |- _ => destruct (Hopt i i' w yi Ho Ei) as [yi' [-> Hci]] end.
          eapply Hafter; [exact Hci| |exact Hx].
          intros w1 y1 HH1. destruct tag as [t|].
          * eapply Hlift; [|exact HH1]. intros tv w2 y2 HH2. cbv beta in HH2 |- *.
            match goal with Hc : Forall2 _ cs cs' |- _ => pose proof (pick_clause_orel tv Hc) as Hp; pose proof (default_from_orel Hc) as Hd end.
            destruct (pick_clause kval tv cs) as [d|], (pick_clause kval tv cs') as [d'|]; try contradiction.
            -- eapply IHF; eauto.
            -- destruct (default_from cs) as [d|], (default_from cs') as [d'|]; try contradiction.
               ++ eapply IHF; eauto.
               ++ inv HH2. eexists. split; [reflexivity|constructor].
          * match goal with Hc : Forall2 _ cs cs' |- _ => exact (IHP cs cs' cs cs' w1 y1 Hc Hc HH1) end.
        + (* for *)
          destruct (match i with None => Some (CDone GNormal w) | Some x0 => exec n x0 w end) as [yi|] eqn:Ei; [|discriminate].
          match goal with Ho : oopt _ i i' |- _ => destruct (Hopt i i' w yi Ho Ei) as [yi' [-> Hci]] end.
          eapply Hafter; [exact Hci| |exact Hx].
          intros w1 y1 HH1. eapply IHLP; eauto.
        + (* return <seq expr> *)
          match goal with Hxr : oxr _ _ |- _ => pose proof (build_orel w Hxr) as Hb end.
          destruct (build yden e w) as [u sv|u pv|].
          * destruct Hb as [sv' [-> Hv]]. inv Hx. eexists. split; [reflexivity|constructor; exact Hv].
          * rewrite Hb. inv Hx. eexists. split; [reflexivity|constructor].
          * rewrite Hb. inv Hx. eexists. split; [reflexivity|constructor].
      - (* lists *)
        intros l l' w x Hl Hx. rewrite exec_list_S in Hx. rewrite exec_list_S.
        inversion Hl as [|s0 s0' r r' Hs0 Hr0]; subst; [eexists; split; [exact Hx|constructor]|].
        destruct (exec n s0 w) as [ys|] eqn:Ey; [|discriminate].
        destruct (IHE s0 s0' w ys Hs0 Ey) as [ys' [-> Hc]].
        eapply Hafter; [exact Hc| |exact Hx]. intros w1 y1 H1. eapply IHL; eauto.
      - (* clause bodies *)
        intros cs cs' w x Hc Hx. rewrite exec_from_S in Hx. rewrite exec_from_S.
        inversion Hc as [|[lab b] [lab' b'] r r' [Hl Hb] Hr]; subst; [eexists; split; [exact Hx|constructor]|].
        cbn in Hl, Hb. subst lab'.
        destruct (ex n b w) as [yb|] eqn:Eb; [|discriminate].
        destruct (IHL b b' w yb Hb Eb) as [yb' [-> Hcb]].
        inversion Hcb; subst; try (inv Hx; eexists; split; [reflexivity|exact Hcb]; fail).
        destruct yb' as [g w1| | | |]; try (inv Hx; eexists; split; [reflexivity|constructor]).
        destruct g; try (inv Hx; eexists; split; [reflexivity|constructor]).
        inversion Hr; subst; [inv Hx; eexists; split; [reflexivity|constructor]|].
        eapply IHF; [|exact Hx]. constructor; assumption.
      - (* tag-less switch *)
        intros a a' l l' w x Ha Hl Hx. rewrite exec_pick_S in Hx. rewrite exec_pick_S.
        inversion Hl as [|[lab b] [lab' b'] r r' [Hlab Hb] Hr]; subst.
        + pose proof (default_from_orel Ha) as Hd.
          destruct (default_from a) as [d|], (default_from a') as [d'|]; try contradiction.
          * eapply IHF; eauto.
          * inv Hx. eexists. split; [reflexivity|constructor].
        + cbn in Hlab, Hb. subst lab'.
          destruct lab; try (exact (IHP a a' r r' w x Ha Hr Hx)).
          eapply Hlift; [|exact Hx]. intros bb w1 y1 H1. cbv beta in H1 |- *. destruct bb.
          * eapply IHF; [|exact H1]. constructor; [split; auto|assumption].
          * exact (IHP a a' r r' w1 y1 Ha Hr H1).
      - (* native loops *)
        intros c p p' b b' w x Hp Hb Hx. rewrite exec_loop_S in Hx. rewrite exec_loop_S. cbv beta zeta in *.
        assert (Hbody : forall w2 y,
          (match ex n b w2 with
           | Some (CDone (GNormal | GContinue) w3) =>
               after_normal (match p with None => Some (CDone GNormal w3) | Some x0 => exec n x0 w3 end) (fun w4 => exloop n c p b w4)
           | Some (CDone GBreak w3) => Some (CDone GNormal w3)
           | other => other end) = Some y ->
          exists y',
          (match ex n b' w2 with
           | Some (CDone (GNormal | GContinue) w3) =>
               after_normal (match p' with None => Some (CDone GNormal w3) | Some x0 => exec n x0 w3 end) (fun w4 => exloop n c p' b' w4)
           | Some (CDone GBreak w3) => Some (CDone GNormal w3)
           | other => other end) = Some y' /\ orc y y').
        { intros w2 y Hy. destruct (ex n b w2) as [yb|] eqn:Eb; [|discriminate].
          destruct (IHL b b' w2 yb Hb Eb) as [yb' [-> Hcb]].
          inversion Hcb; subst; [|inv Hy; eexists; split; [reflexivity|exact Hcb]].
          destruct yb' as [g w3| | | |]; try (inv Hy; eexists; split; [reflexivity|constructor]).
          destruct g; try (inv Hy; eexists; split; [reflexivity|constructor]).
          + destruct (match p with None => Some (CDone GNormal w3) | Some x0 => exec n x0 w3 end) as [yp|] eqn:Ep; [|discriminate].
            destruct (Hopt p p' w3 yp Hp Ep) as [yp' [-> Hcp]].
            eapply Hafter; [exact Hcp| |exact Hy]. intros w4 y4 H4. eapply IHLP; eauto.
          + destruct (match p with None => Some (CDone GNormal w3) | Some x0 => exec n x0 w3 end) as [yp|] eqn:Ep; [|discriminate].
            destruct (Hopt p p' w3 yp Hp Ep) as [yp' [-> Hcp]].
            eapply Hafter; [exact Hcp| |exact Hy]. intros w4 y4 H4. eapply IHLP; eauto. }
        destruct c as [cc|]; [|apply Hbody; exact Hx].
        eapply Hlift; [|exact Hx]. intros bb w2 y2 H2. cbv beta in H2 |- *. destruct bb; [apply Hbody; exact H2|].
        inv H2. eexists. split; [reflexivity|constructor].
      - (* run *)
        intros sv sv' w r Hv Hr. inversion Hv; subst; [exact Hr|..]; rewrite run_S in Hr.
        + rewrite run_S. destruct (env (snd w) v (fst w)) as [u' more]. destruct more; [eapply IHC; eauto|exact Hr].
        + rewrite run_S. eapply IHC; eauto.
        + (* the elided Delay: its callback only built the value *)
          match goal with Ht : otr t _ |- _ => pose proof (IHC _ _ w r Ht Hr) as Hc end.
          destruct n as [|n1]; [discriminate|]. rewrite call_S in Hc.
          destruct n1 as [|n2]; [discriminate|]. rewrite exec_list_S in Hc.
          destruct n2 as [|n3]; [discriminate|]. rewrite exec_S in Hc.
          match goal with Hp : pureb x' = true |- _ => rewrite (pure_build x' w Hp) in Hc end.
          cbn [after_normal] in Hc. destruct w as [u k]. cbn [fst snd] in Hc.
          eapply run_mono; [|exact Hc]. lia.
        + rewrite run_S. unfold after_normal in *. destruct (run n a w) as [y|] eqn:Ea; [|discriminate].
          rewrite (IHR a a' w y ltac:(assumption) Ea). destruct y as [g w1| | | |]; auto. destruct g; auto. eapply IHR; eauto.
        + rewrite run_S. eapply IHRL; eauto.
        + rewrite run_S. exact Hr.
      - (* call *)
        intros t t' w r Ht Hr. inversion Ht as [t0|l0 l0' Hl0|l0 x0 Hl0 Hsig|x0]; subst; [exact Hr|..]; rewrite call_S in Hr.
        + rewrite call_S. destruct (ex n l0 w) as [x|] eqn:El; [|discriminate].
          destruct (IHL l0 l0' w x Hl0 El) as [x' [-> Hc]].
          inversion Hc; subst; [exact Hr|]. eapply IHR; eauto.
        + (* func() Seq { return sig() }  ~>  sig *)
          rewrite call_S. destruct (sig_build x0 Hsig) as [g Hg]. rewrite Hg.
          destruct (ex n l0 w) as [x|] eqn:El; [|discriminate].
          destruct (IHL l0 [SRet x0] w x Hl0 El) as [x' [Ex' Hc]].
          destruct n as [|n1]; [discriminate|]. rewrite exec_list_S in Ex'.
          destruct n1 as [|n2]; [discriminate|]. rewrite exec_S, Hg in Ex'. cbn [after_normal] in Ex'. inv Ex'.
          inversion Hc; subst.
          * exact Hr.
          * eapply IHR; eauto.
        + rewrite call_S. exact Hr.
      - (* run_loop *)
        intros c c' p p' body body' sk w r Hcnd Hp Hv Hr. rewrite run_loop_S in Hr. rewrite run_loop_S. cbv beta zeta in *.
        assert (Hiter : forall w2 y,
          (match run n body w2 with
           | Some (CDone (GNormal | GContinue) w3) => run_loop n c p body false w3
           | Some (CDone GBreak w3) => Some (CDone GNormal w3)
           | other => other end) = Some y ->
          (match run n body' w2 with
           | Some (CDone (GNormal | GContinue) w3) => run_loop n c' p' body' false w3
           | Some (CDone GBreak w3) => Some (CDone GNormal w3)
           | other => other end) = Some y).
        { intros w2 y Hy. destruct (run n body w2) as [yb|] eqn:Eb; [|discriminate].
          rewrite (IHR body body' w2 yb Hv Eb). destruct yb as [g w3| | | |]; auto. destruct g; auto; eapply IHRL; eauto. }
        assert (Hap : forall w1 y,
          (match c with
           | None => (fun w2 => match run n body w2 with
                                | Some (CDone (GNormal | GContinue) w3) => run_loop n c p body false w3
                                | Some (CDone GBreak w3) => Some (CDone GNormal w3)
                                | other => other end) w1
           | Some (CExp cc) | Some (CFun cc) =>
               lift (cden cc (fst w1)) (snd w1) (fun bb w2 => if bb then
                   match run n body w2 with
                   | Some (CDone (GNormal | GContinue) w3) => run_loop n c p body false w3
                   | Some (CDone GBreak w3) => Some (CDone GNormal w3)
                   | other => other end else Some (CDone GNormal w2))
           end) = Some y ->
          (match c' with
           | None => (fun w2 => match run n body' w2 with
                                | Some (CDone (GNormal | GContinue) w3) => run_loop n c' p' body' false w3
                                | Some (CDone GBreak w3) => Some (CDone GNormal w3)
                                | other => other end) w1
           | Some (CExp cc) | Some (CFun cc) =>
               lift (cden cc (fst w1)) (snd w1) (fun bb w2 => if bb then
                   match run n body' w2 with
                   | Some (CDone (GNormal | GContinue) w3) => run_loop n c' p' body' false w3
                   | Some (CDone GBreak w3) => Some (CDone GNormal w3)
                   | other => other end else Some (CDone GNormal w2))
           end) = Some y).
        { intros w1 y Hy. inversion Hcnd as [c0|e f Hef]; subst.
          - destruct c' as [[cc|cc]|]; [| |apply Hiter; exact Hy];
              unfold lift in *; destruct (cden cc (fst w1)) as [u bb|u pv|]; auto; destruct bb; auto; apply Hiter; exact Hy.
          - rewrite <- (@Heta e f (fst w1) Hef).
            unfold lift in *; destruct (cden e (fst w1)) as [u bb|u pv|]; auto; destruct bb; auto; apply Hiter; exact Hy. }
        destruct sk; [apply Hap; exact Hr|]. inversion Hp as [|ps ps' Hps]; subst; [apply Hap; exact Hr|].
        destruct (exec n ps w) as [yp|] eqn:Ep; [|discriminate].
        destruct (IHE ps ps' w yp Hps Ep) as [yp' [-> Hcp]].
        inversion Hcp; subst; auto.
        destruct yp' as [g w1| | | |]; auto. destruct g; auto.
    Qed.
  End S.
End R.
