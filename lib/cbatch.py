"""Compile-and-run batches of generated generator programs: go-co rendering compiled by the
real rewriter (hook VerifCompile, build tag verif) vs reference rendering on refco."""
import json
import os
import re
import shutil

import common as C
import pgen

GOMOD = """module genmod

go %s

require github.com/goghcrow/go-co v0.0.0

replace github.com/goghcrow/go-co => %s
"""

COMPILE_MAIN = """package main

import (
	"encoding/json"
	"os"

	"github.com/goghcrow/go-co/rewriter"
)

func main() {
	st := rewriter.VerifCompile(os.Args[1], os.Args[2], os.Args[3])
	json.NewEncoder(os.Stdout).Encode(st)
}
"""

RUN_MAIN = """package main

import (
	"encoding/json"
	"fmt"
	"os"

	"genmod/tr"
%(imports)s
)

type iter interface {
	MoveNext() bool
	Current() int
}

type Case struct {
	G      string   `json:"g"`
	Tape   []int    `json:"tape"`
	Budget int      `json:"budget"`
	Hist   []string `json:"hist"`
}

type Res struct {
	Events [][3]int `json:"events"`
	Err    string   `json:"err,omitempty"`
}

var gens = map[string]func() iter{}

func step(it iter, op string) (stop bool) {
	defer func() {
		if r := recover(); r != nil {
			if pv, ok := r.(tr.PanicVal); ok {
				tr.Mark(30, pv.ID, 0)
			} else {
				tr.Mark(31, len(fmt.Sprint(r)), 0)
			}
			stop = true
		}
	}()
	switch op {
	case "mn":
		tr.Mark(10, 0, 0)
		b := it.MoveNext()
		if b {
			tr.Mark(20, 1, 0)
		} else {
			tr.Mark(20, 0, 0)
		}
	case "cur":
		tr.Mark(11, 0, 0)
		tr.Mark(21, it.Current(), 0)
	}
	return false
}

func run(c Case) (res Res) {
	mk, ok := gens[c.G]
	if !ok {
		return Res{Err: "missing"}
	}
	tr.Reset(c.Tape, c.Budget)
	var it iter
	func() {
		defer func() {
			if r := recover(); r != nil {
				if pv, ok := r.(tr.PanicVal); ok {
					tr.Mark(33, pv.ID, 0) // panic while the generator function itself was called
				} else {
					tr.Mark(34, len(fmt.Sprint(r)), 0)
				}
			}
		}()
		tr.Mark(12, 0, 0)
		it = mk()
		tr.Mark(22, 0, 0)
	}()
	if it != nil {
		for _, op := range c.Hist {
			if step(it, op) {
				break
			}
		}
	}
	res.Events = make([][3]int, len(tr.Log))
	for i, e := range tr.Log {
		res.Events[i] = e
	}
	return
}

func main() {
%(regs)s
	var cases []Case
	if err := json.NewDecoder(os.Stdin).Decode(&cases); err != nil {
		panic(err)
	}
	out := make([]Res, len(cases))
	for i, c := range cases {
		out[i] = run(c)
	}
	json.NewEncoder(os.Stdout).Encode(out)
}
"""


class Batch:
    """A batch = several packages, each several files, each several generator functions."""

    def __init__(self, name, gover="1.21"):
        self.work = C.workdir(name)
        self.gover = gover
        self.pkgs = {}      # pkg -> {file -> [(fname, body)]}
        self.extra_src = {}  # (pkg, filename) -> text (hand-written co source files)
        self.status = {}    # "pkg.func" -> "ok" | "compile-panic: msg" | "build-error: msg"

    def add(self, pkg, file, fname, body):
        self.pkgs.setdefault(pkg, {}).setdefault(file, []).append((fname, body))

    def close(self):
        C.rmtree(self.work)

    # -- files
    def write(self):
        w = self.work
        with open(os.path.join(w, "go.mod"), "w") as f:
            f.write(GOMOD % (self.gover, C.REPO))
        shutil.copy(os.path.join(C.REPO, "go.sum"), os.path.join(w, "go.sum"))
        for d in ("tr", "refco"):
            shutil.copytree(os.path.join(C.HARNESS, "genmod", d), os.path.join(w, d))
        os.makedirs(os.path.join(w, "cmd", "compile"))
        with open(os.path.join(w, "cmd", "compile", "main.go"), "w") as f:
            f.write(COMPILE_MAIN)
        for pkg, files in self.pkgs.items():
            for mode, top in (("co", "src"), ("ref", "ref")):
                d = os.path.join(w, top, pkg)
                os.makedirs(d, exist_ok=True)
                for file, funcs in files.items():
                    with open(os.path.join(d, file + ".go"), "w") as f:
                        f.write(pgen.render_file(pkg, funcs, mode, getattr(self, 'styles', {}).get((pkg, file), 'dot')))
        for (pkg, filename), text in self.extra_src.items():
            d = os.path.join(w, "src", pkg)
            os.makedirs(d, exist_ok=True)
            with open(os.path.join(d, filename), "w") as f:
                f.write(text)

    def funcs_of(self, pkg, file):
        return [fn for fn, _ in self.pkgs[pkg][file]]

    # -- compile with the real rewriter
    def compile(self):
        w = self.work
        exe = os.path.join(w, "compile.bin")
        rc, o, e = C.run(["go", "build", "-tags", "verif", "-o", exe, "./cmd/compile"], cwd=w, timeout=900)
        if rc != 0:
            raise RuntimeError("cannot build compile driver against %s:\n%s" % (C.REPO, (o + e)[-3000:]))
        rc, o, e = C.run(["timeout", "1200", exe, "src", "out", "tmp"], cwd=w, timeout=1300)
        self.compile_log = e[-4000:]
        if rc != 0:
            raise RuntimeError("compile driver crashed (rc=%d):\n%s" % (rc, e[-4000:]))
        try:
            st = json.loads(o) or []
        except ValueError:
            raise RuntimeError("compile driver output not JSON: " + o[-2000:])
        for s in st:
            m = re.search(r"/(?:src|tmp)/([^/]+)/([^/]+)\.go$", s["File"])
            if not m:
                continue
            pkg, file = m.group(1), m.group(2)
            for fn in self.funcs_of(pkg, file) if pkg in self.pkgs and file in self.pkgs[pkg] else []:
                self.status["%s.%s" % (pkg, fn)] = "compile-panic(%s): %s" % (s["Stage"], s["Panic"].splitlines()[0][:200])
            self.status["file:%s/%s" % (pkg, file)] = "compile-panic(%s): %s" % (s["Stage"], s["Panic"][:300])
            # a panicking file leaves no (or a stale) output: make sure it is absent
            for top in ("out", "tmp"):
                p = os.path.join(w, top, pkg, file + ".go")
                if s["Stage"] == "rewrite" and os.path.exists(p):
                    os.remove(p)
        for pkg, files in self.pkgs.items():
            for file in files:
                if not os.path.exists(os.path.join(w, "out", pkg, file + ".go")):
                    for fn in self.funcs_of(pkg, file):
                        self.status.setdefault("%s.%s" % (pkg, fn), "no-output")
        return st

    # -- build the compiled packages, dropping files that do not build
    def build_out(self, top="out", rounds=6):
        w = self.work
        for _ in range(rounds):
            rc, o, e = C.run(["go", "build", "./%s/..." % top], cwd=w, timeout=900)
            if rc == 0:
                return
            bad = {}
            for m in re.finditer(r"^(%s/[^/\s]+/[^/\s:]+\.go):(\d+):\d+: (.*)$" % top, e, re.M):
                bad.setdefault(m.group(1), m.group(3))
            if not bad:
                raise RuntimeError("go build of compiled output failed without file positions:\n" + e[-3000:])
            for path, msg in bad.items():
                pkg, file = path.split("/")[1], path.split("/")[2][:-3]
                if pkg in self.pkgs and file in self.pkgs[pkg]:
                    for fn in self.funcs_of(pkg, file):
                        self.status["%s.%s" % (pkg, fn)] = "build-error: " + msg[:200]
                self.status["file:%s/%s" % (pkg, file)] = "build-error: " + msg[:300]
                os.remove(os.path.join(w, path))
        raise RuntimeError("compiled output still does not build after dropping failing files")

    def ok_funcs(self, pkg):
        out = []
        for file, funcs in self.pkgs[pkg].items():
            for fn, _ in funcs:
                if "%s.%s" % (pkg, fn) not in self.status:
                    out.append(fn)
        return out

    def write_runner(self, name, top, only_ok):
        w = self.work
        imports, regs = [], []
        for pkg in self.pkgs:
            fns = self.ok_funcs(pkg) if only_ok else [fn for fs in self.pkgs[pkg].values() for fn, _ in fs]
            if not fns:
                continue
            if not os.path.isdir(os.path.join(w, top, pkg)) or not any(x.endswith(".go") for x in os.listdir(os.path.join(w, top, pkg))):
                continue
            imports.append('\t%s "genmod/%s/%s"' % (pkg, top, pkg))
            for fn in fns:
                regs.append('\tgens["%s.%s"] = func() iter { return %s.%s() }' % (pkg, fn, pkg, fn))
        d = os.path.join(w, "cmd", name)
        os.makedirs(d, exist_ok=True)
        with open(os.path.join(d, "main.go"), "w") as f:
            f.write(RUN_MAIN % {"imports": "\n".join(imports), "regs": "\n".join(regs)})
        exe = os.path.join(w, name + ".bin")
        rc, o, e = C.run(["go", "build", "-o", exe, "./cmd/" + name], cwd=w, timeout=900)
        if rc != 0:
            raise RuntimeError("cannot build runner %s:\n%s" % (name, (o + e)[-3000:]))
        return exe

    def run(self, exe, cases, timeout=900):
        rc, o, e = C.run(["timeout", str(timeout), exe], input=json.dumps(cases), cwd=self.work, timeout=timeout + 60)
        if rc != 0:
            raise RuntimeError("runner failed rc=%d: %s" % (rc, e[-3000:]))
        return json.loads(o)
