(* Props_C07.v — the optimisation pass never changes observable behaviour.

   Full statement (C07): for every program the optimised generated code and the
   unoptimised intermediate code produce identical value sequences and effect
   interleavings; no expression is evaluated earlier, later, more or less often; no function
   value is captured at a different time; import clean-up keeps the file building.

   What is proved (PARTIAL): for the model of the optimiser on generated code (Opt.v: Delay
   elision and eta reduction, both bottom-up, as the real passes are — validated against
   the real optimiser's output by the structural correspondence of lib/optstruct.py), for
   every expression e handed to seq.Start for which the computable condition [opt_ok] holds
   (every elided Delay wraps an expression whose construction evaluates nothing but
   literals — true of the rewriter's output, where the arguments of Combine / For are
   Delay calls), for every denotation of user code, every consumer and both readings of
   callbacks: Start(e) and Start(optimise e) have the same outcome — same values delivered
   in the same worlds, same stop point, same panic, and the same evaluation at the time the
   generator function is called (build).  Hypotheses: a literal evaluates to its value
   without effect [Hlit]; a loop condition `f()` with a stable callee behaves like the
   function value f called later [Heta] (the real optimiser's stableCallee test decides
   which callees those are: package-level functions and method values of compiler-generated
   iterator variables; that decision is not modelled).  Missing: eta reduction of ordinary
   user closures and import clean-up (both covered by the differential check and the
   optimiser corpus), and the stableCallee decision itself. *)
From Coq Require Import List.
From Verif Require Import Base Syntax Sem Rewrite Side C01Main.
From Verif Require Import Opt OptRel OptCorrect Link LinkMachine OptMachine.
Import ListNotations.

Theorem C07_optimiser_preserves_partial :
  forall (is_lit : nat -> bool) (eta_cond : nat -> option nat)
         (U V P : Type)
         (aden : nat -> U -> outcome U P unit) (cden : nat -> U -> outcome U P bool)
         (tden : nat -> U -> outcome U P nat) (kval : nat -> nat) (yden : nat -> U -> outcome U P V)
         (env : nat -> V -> U -> U * bool) (strict : bool) (litval : nat -> V),
    (forall v u, is_lit v = true -> yden v u = Ok u (litval v)) ->
    (forall e f u, eta_cond e = Some f -> cden e u = cden f u) ->
    forall e, opt_ok is_lit e = true ->
    forall n u f,
      start_run U V P aden cden tden kval yden env strict n e u = Some f ->
      start_run U V P aden cden tden kval yden env strict n (optimise is_lit eta_cond e) u = Some f.
Proof.
  intros is_lit eta_cond U V P aden cden tden kval yden env strict litval Hlit Heta e Hok n u f H.
  exact (optimise_correct is_lit eta_cond U V P aden cden tden kval yden env strict litval Hlit Heta e Hok n u f H).
Qed.
Print Assumptions C07_optimiser_preserves_partial.

(* source to optimised code, on the fragment of Props_C01.v *)
Theorem C07_source_to_optimised_partial :
  forall (is_lit : nat -> bool) (eta_cond : nat -> option nat)
         (U V P : Type)
         (aden : nat -> U -> outcome U P unit) (cden : nat -> U -> outcome U P bool)
         (tden : nat -> U -> outcome U P nat) (kval : nat -> nat) (yden : nat -> U -> outcome U P V)
         (env : nat -> V -> U -> U * bool) (litval : nat -> V),
    (forall v u, is_lit v = true -> yden v u = Ok u (litval v)) ->
    (forall e f u, eta_cond e = Some f -> cden e u = cden f u) ->
    forall body, c01_hyps body = true ->
    exists out, rewrite body = OK out /\
      (opt_ok is_lit (XDelay (TLit out)) = true ->
       forall n u f,
         run_source aden cden tden kval yden env n body u = Some f -> f <> FStuck ->
         exists m, start_run U V P aden cden tden kval yden env true m (optimise is_lit eta_cond (XDelay (TLit out))) u = Some f).
Proof.
  intros is_lit eta_cond U V P aden cden tden kval yden env litval Hlit Heta body Hh.
  destruct (compiler_correct_hyps U V P aden cden tden kval yden env body Hh) as [out [Hr Hc]].
  exists out. split; [exact Hr|]. intros Hok n u f Hs Hns.
  destruct (Hc n u f Hs Hns) as [m Hm]. exists m.
  apply (optimise_correct is_lit eta_cond U V P aden cden tden kval yden env true litval Hlit Heta _ Hok).
  unfold start_run. cbn [build fst snd]. exact Hm.
Qed.
Print Assumptions C07_source_to_optimised_partial.

(* non-vacuity: the rewriter's output for a loop with a literal yield satisfies opt_ok, and the
   optimiser changes it (the Delay around the loop is elided, `func() Seq { return Normal() }`
   becomes the function value) *)
Example C07_opt_ok_example :
  let body := [SFor None (Some 1) (Some (SAtom 2)) [SYield 3; SAtom 4]; SYield 5] in
  let is_lit := fun v => Nat.eqb v 3 in
  exists out, rewrite body = OK out /\ opt_ok is_lit (XDelay (TLit out)) = true /\
              optimise is_lit (fun _ => None) (XDelay (TLit out)) <> XDelay (TLit out).
Proof. cbv zeta. eexists. split; [vm_compute; reflexivity|]. split; [vm_compute; reflexivity|]. vm_compute. discriminate. Qed.

(* ... and down to the machine model of seq/seq.go: Start(<optimised expression>) — the expression is
   evaluated (only value arguments of Bind run user code: literals, by the side condition), the value is
   started and driven by the consumer's MoveNext / Current loop over the generator object of
   SeqMachine.v.  Side conditions: those above, and no native Yield left in the optimised expression
   (lkx, computable, evaluated on every generated program by the optimiser correspondence). *)
Theorem C07_end_to_end_machine_partial :
  forall (is_lit : nat -> bool) (eta_cond : nat -> option nat)
         (U V P : Type)
         (aden : nat -> U -> outcome U P unit) (cden : nat -> U -> outcome U P bool)
         (tden : nat -> U -> outcome U P nat) (kval : nat -> nat) (yden : nat -> U -> outcome U P V)
         (env : nat -> V -> U -> U * bool) (litval : nat -> V) (zeroV : V),
    (forall v u, is_lit v = true -> yden v u = Ok u (litval v)) ->
    (forall e f u, eta_cond e = Some f -> cden e u = cden f u) ->
    forall body, c01_hyps body = true ->
    exists out, rewrite body = OK out /\
      (opt_ok is_lit (XDelay (TLit out)) = true ->
       lkx (forallb (lk KS)) (optimise is_lit eta_cond (XDelay (TLit out))) = true ->
       forall n u f,
         run_source aden cden tden kval yden env n body u = Some f -> f <> FStuck ->
         exists M, forall N F, M <= N -> M <= F ->
           machine_start U V P aden cden tden kval yden env zeroV KS (optimise is_lit eta_cond (XDelay (TLit out))) u N F = Some f).
Proof.
  intros is_lit eta_cond U V P aden cden tden kval yden env litval zeroV Hlit Heta body Hh.
  destruct (C07_source_to_optimised_partial is_lit eta_cond U V P aden cden tden kval yden env litval Hlit Heta body Hh) as [out [Hr Hc]].
  exists out. split; [exact Hr|]. intros Hok Hlk n u f Hs Hns.
  destruct (Hc Hok n u f Hs Hns) as [m Hm].
  exact (start_run_machine U V P aden cden tden kval yden env zeroV KS _ m u f Hlk Hm Hns).
Qed.
Print Assumptions C07_end_to_end_machine_partial.
