(* Props_C17.v — stack depth.  PARTIAL: the unbounded statements proved are (i) a
   synchronous loop-back continues the loop at the loop frame's own depth, (ii)
   for loops whose body completes with Normal or Continue without suspending
   (a filter rejecting elements), every condition and post evaluation of ANY
   number of iterations happens at the same depth.  A bound for arbitrary bodies
   (linear in term nesting) is not proved; the correspondence check compares the
   model's depth log with runtime.Callers exactly on every generated case and the
   check measures the real stack at iteration counts up to 10^6. *)
From Verif Require Import Base SeqMachine Depth.

Theorem C17_loopback_same_depth :
  forall (U V P : Type) (zeroV : V) n d cd p (b : seqv U V P) c k dl t v (m : st U V P),
    t = KNormal \/ t = KContinue ->
    call_cont zeroV (S n) d (KFor cd p b c k dl (get_epoch m c)) t v m = loop zeroV n dl cd p b c k false m.
Proof. exact loopback_same_depth. Qed.
Print Assumptions C17_loopback_same_depth.

Theorem C17_bounded_partial :
  forall (U V P : Type) (zeroV : V) n dl cd p t c g sk (m : st U V P) r,
    t = KNormal \/ t = KContinue ->
    loop zeroV n dl cd p (SOfK t) c (KFinal g) sk m = Some r ->
    match r with
    | MOk m' _ | MPanic m' _ => extends_with (S dl) (dlog m) (dlog m')
    | MStuck => True
    end.
Proof. exact sync_loop_constant_depth. Qed.
Print Assumptions C17_bounded_partial.

(* non-vacuity: While(cond counting to 50, Continue): 51 condition evaluations, all at depth 6 *)
Example C17_example :
  let cond : oracle nat nat bool := fun _ u => Some (Ok (S u) (Nat.ltb u 50)) in
  let s : seqv nat nat nat := SFor (Some cond) None (SOfK KContinue) in
  let '(m0, g) := start 0 s (empty_st nat nat 0) in
  match gen_MoveNext 0 1000 1 g m0 with
  | Some (MOk m' false) => dlog m' = repeat 6 51
  | _ => False
  end.
Proof. vm_compute. reflexivity. Qed.
