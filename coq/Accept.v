(* Accept.v — on the supported fragment the rewriter model never fails an assertion:
   whatever the fuel, rw_stmts either produces a block or runs out of fuel; the errors
   E_ASSERT_PUSH / E_ASSERT_POP / E_ASSERT_KIND (the `assert`s and panics of yield_block.go
   and yield_rewrite.go), E_YIELD_IN_INIT, E_POST_NOT_RETURN and E_UNSUPPORTED are unreachable.
   Fuel is an artefact of the model (the Go code recurses on the syntax tree), so this is
   the model-level reading of "the compiler terminates without panicking" (C11). *)
From Coq Require Import List Arith Bool Lia.
From Verif Require Import Base Syntax Rewrite Side RwCorrect.
Import ListNotations.

Definition ok_err {A} (r : res A) : Prop := match r with OK _ => True | Err e => e = E_FUEL end.

Lemma ok_err_bind A B (m : res A) (f : A -> res B) :
  ok_err m -> (forall a, m = OK a -> ok_err (f a)) -> ok_err (bind m f).
Proof. destruct m as [a|e]; cbn; intros H Hf; [apply Hf; reflexivity|exact H]. Qed.

Definition good_bkind (k : kind) : bool := match k with KDelay | KIf | KFor | KSwitch => true | _ => false end.

(* blocks as the rewriter builds them: one kind per statement, only the last statement may have
   been pushed as a return, and then (and only then) the block is frozen *)
Definition binvA (c : blk) : Prop :=
  length (bstmts c) = length (bkinds c) /\
  Forall (fun k => is_ret_kind k = false) (removelast (bkinds c)) /\
  frozen c = match lastKind c with Some k => is_ret_kind k | None => false end /\
  good_bkind (bkind c) = true.

Definition ready (c : blk) : Prop := binvA c /\ checked c = true /\ frozen c = false.

Lemma binvA_mk k : good_bkind k = true -> binvA (mkBlock k).
Proof. intros H. repeat split; cbn; auto. Qed.
Lemma ready_mk k : good_bkind k = true -> ready (mkBlock k).
Proof. intros H. split; [apply binvA_mk; exact H|split; reflexivity]. Qed.

Lemma last_app_some {A} (l : list A) x : last (map Some (l ++ [x])) None = Some x.
Proof.
  induction l as [|a l IH]; [reflexivity|]. cbn [app map].
  destruct (l ++ [x]) as [|b r] eqn:E; [destruct l; discriminate|]. cbn [map] in *. exact IH.
Qed.

Lemma lastKind_none_frozen c : binvA c -> lastKind c = None -> frozen c = false.
Proof. intros [_ [_ [H _]]] E. rewrite E in H. exact H. Qed.

Lemma ready_nonret c : ready c -> Forall (fun k => is_ret_kind k = false) (bkinds c).
Proof.
  intros [[_ [Hp [Hf _]]] [_ Hz]]. rewrite Hz in Hf. unfold lastKind in Hf.
  destruct (bkinds c) as [|k0 r] eqn:E; [constructor|].
  assert (Hl : exists k, last (map Some (k0 :: r)) None = Some k /\ (k0 :: r) = removelast (k0 :: r) ++ [k]).
  { clear. revert k0. induction r as [|k1 r IH]; intros k0; [exists k0; split; reflexivity|].
    destruct (IH k1) as [k [H1 H2]]. exists k. split; [exact H1|]. change (removelast (k0 :: k1 :: r)) with (k0 :: removelast (k1 :: r)).
    cbn [app]. f_equal. exact H2. }
  destruct Hl as [k [H1 H2]]. rewrite H1 in Hf. rewrite H2. apply Forall_app. split; [exact Hp|]. constructor; [symmetry; exact Hf|constructor].
Qed.

Lemma push_ok c s k : ready c -> exists c', push c s k = OK c' /\ (is_ret_kind k = false -> binvA c') /\ frozen c' = false /\
                                              lastKind c' = Some k /\ bkind c' = bkind c /\ length (bstmts c') = length (bkinds c') /\
                                              Forall (fun k => is_ret_kind k = false) (removelast (bkinds c')).
Proof.
  intros Hr. pose proof (ready_nonret c Hr) as Hn. destruct Hr as [[Hl [Hp [Hf Hb]]] [Hc Hz]]. unfold push. rewrite Hc, Hz. cbn [negb orb].
  eexists. split; [reflexivity|]. cbn [bstmts bkinds bkind frozen].
  assert (Hlast : lastKind {| bstmts := bstmts c ++ [s]; bkinds := bkinds c ++ [k]; bkind := bkind c; frozen := false; checked := false |} = Some k)
    by (unfold lastKind; cbn [bkinds]; apply last_app_some).
  assert (Hrm : removelast (bkinds c ++ [k]) = bkinds c) by (apply removelast_last).
  split; [|split; [reflexivity|split; [exact Hlast|split; [reflexivity|split; [rewrite !app_length; cbn; lia|rewrite Hrm; exact Hn]]]]].
  intros Hk. repeat split; cbn [bstmts bkinds bkind frozen].
  - rewrite !app_length. cbn. lia.
  - rewrite Hrm. exact Hn.
  - rewrite Hlast. symmetry. exact Hk.
  - exact Hb.
Qed.

Lemma pushReturn_ok c e k : ready c -> is_ret_kind k = true -> exists c', pushReturn c e k = OK c' /\ binvA c'.
Proof.
  intros Hr Hk. unfold pushReturn. rewrite Hk. cbn [negb].
  destruct (push_ok c (SRet e) k Hr) as [c' [-> [_ [_ [Hlast [Hbk [Hlen Hrm]]]]]]]. cbn [bind].
  eexists. split; [reflexivity|]. repeat split; cbn [bstmts bkinds bkind frozen].
  - exact Hlen.
  - exact Hrm.
  - unfold lastKind in *. cbn [bkinds]. rewrite Hlast. symmetry. exact Hk.
  - rewrite Hbk. destruct Hr as [[_ [_ [_ Hb]]] _]. exact Hb.
Qed.

(* what generateLastNormalIfNecessary needs *)
Definition glnable (c : blk) : Prop :=
  good_bkind (bkind c) = true /\ checked c = checked c /\
  (forall k, lastKind c = Some k -> is_ret_kind k = false -> frozen c = false) /\ (lastKind c = None -> frozen c = false) /\
  length (bstmts c) = length (bkinds c) /\ Forall (fun k => is_ret_kind k = false) (removelast (bkinds c)).

Lemma binvA_glnable c : binvA c -> glnable c.
Proof.
  intros [Hl [Hp [Hf Hb]]]. repeat split; auto.
  - intros k E Hk. rewrite E in Hf. rewrite Hf. exact Hk.
  - intros E. rewrite E in Hf. exact Hf.
Qed.

Lemma last_none_nil {A} (l : list A) : last (map Some l) None = None -> l = [].
Proof. destruct l as [|a l]; [reflexivity|]. intros H. exfalso. revert a H. induction l as [|b l IH]; intros a H; [discriminate|]. apply (IH b). exact H. Qed.

Lemma pushNormal_ok c : frozen c = false -> exists c', pushReturn (markCombined c) XNormal KNormal = OK c'.
Proof. intros Hz. unfold pushReturn, push, markCombined. cbn [negb is_ret_kind checked frozen orb]. rewrite Hz. cbn [bind]. eexists. reflexivity. Qed.

Lemma gln_ok c : glnable c -> exists c', gln c = OK c'.
Proof.
  intros [Hb [_ [H1 [H2 [Hlen Hrm]]]]]. unfold gln.
  assert (Hcore : (bkind c = KDelay \/ bkind c = KFor \/ bkind c = KIf) ->
            exists c', (r <- returnNormalRequired c ;; if r then pushReturn (markCombined c) XNormal KNormal else OK c) = OK c').
  { intros Hk. unfold returnNormalRequired.
    assert (Ek : match bkind c with KDelay | KFor | KIf => True | _ => False end) by (destruct Hk as [->|[->| ->]]; exact I).
    destruct (bkind c); try contradiction.
    all: destruct (lastStmt c) as [s|] eqn:Es; destruct (lastKind c) as [k|] eqn:El; cbn [bind];
      try (apply pushNormal_ok; apply H2; reflexivity);
      try (destruct k; cbn [bind]; try (eexists; reflexivity);
           destruct (negb (isTerminating s)); try (eexists; reflexivity); apply pushNormal_ok; eapply H1; reflexivity).
    all: exfalso; unfold lastStmt in Es; apply last_none_nil in Es; unfold lastKind in El;
      destruct (bkinds c); [discriminate|rewrite Es in Hlen; discriminate]. }
  destruct (bkind c) eqn:Ek; try discriminate.
  - apply Hcore. auto.
  - apply Hcore. auto.
  - eexists. reflexivity.
  - apply Hcore. auto.
Qed.

Lemma Forall_removelast {A} (Pp : A -> Prop) l : Forall Pp l -> Forall Pp (removelast l).
Proof. induction 1 as [|a l Ha Hl IH]; [constructor|]. destruct l; [constructor|]. cbn [removelast]. constructor; assumption. Qed.

Lemma last_removelast_nonret (ks : list kind) : Forall (fun k => is_ret_kind k = false) (removelast ks) ->
  match last (map Some (removelast ks)) None with Some k => is_ret_kind k | None => false end = false.
Proof.
  generalize (removelast ks) as l. intros l H. induction H as [|a l Ha Hl IH]; [reflexivity|].
  destruct l as [|b l']; [exact Ha|exact IH].
Qed.

Lemma length_removelast {A} (l : list A) : length (removelast l) = length l - 1.
Proof. induction l as [|a l IH]; [reflexivity|]. destruct l; [reflexivity|]. cbn [removelast length] in *. rewrite IH. lia. Qed.

Lemma pop_ok c k : binvA c -> lastKind c = Some k ->
  exists s c', pop (markCombined c) = OK (s, k, c') /\ ready c'.
Proof.
  intros [Hl [Hp [Hf Hb]]] Ek. unfold pop, lastStmt, lastKind, markCombined in *. cbn [bstmts bkinds bkind frozen checked].
  rewrite Ek. destruct (last (map Some (bstmts c)) None) as [s|] eqn:Es.
  - eexists. eexists. split; [reflexivity|]. split; [|split; reflexivity].
    repeat split; cbn [bstmts bkinds bkind frozen].
    + rewrite !length_removelast, Hl. reflexivity.
    + apply Forall_removelast. exact Hp.
    + unfold lastKind. cbn [bkinds]. symmetry. apply last_removelast_nonret. exact Hp.
    + exact Hb.
  - exfalso. apply last_none_nil in Es. destruct (bkinds c); [discriminate|rewrite Es in Hl; discriminate].
Qed.

Definition okB (r : res blk) : Prop := match r with OK B => binvA B | Err e => e = E_FUEL end.

Lemma okB_ok_err r : okB r -> ok_err r.
Proof. destruct r; cbn; auto. Qed.

Lemma okB_bind A (m : res A) (f : A -> res blk) :
  ok_err m -> (forall a, m = OK a -> okB (f a)) -> okB (bind m f).
Proof. destruct m as [a|e]; cbn; intros H Hf; [apply Hf; reflexivity|exact H]. Qed.

Lemma gln_spec c c' : gln c = OK c' ->
  c' = c \/ (pushReturn (markCombined c) XNormal KNormal = OK c' /\ returnNormalRequired c = OK true).
Proof.
  unfold gln. destruct (bkind c); try (intros H; inversion H; auto; fail).
  all: destruct (returnNormalRequired c) as [[|]|]; cbn [bind]; intros H; try discriminate; try (inversion H; auto; fail); auto.
Qed.

Lemma rnr_true_frozen c : binvA c -> returnNormalRequired c = OK true -> frozen c = false.
Proof.
  intros [Hl [Hp [Hf Hb]]] H. rewrite Hf. unfold returnNormalRequired in H.
  destruct (lastKind c) as [k|] eqn:El; [|reflexivity].
  destruct (lastStmt c) as [s|] eqn:Es.
  - destruct k; try reflexivity; exfalso; destruct (bkind c); discriminate.
  - exfalso. unfold lastStmt in Es. apply last_none_nil in Es. unfold lastKind in El.
    destruct (bkinds c); [discriminate|rewrite Es in Hl; discriminate].
Qed.

Lemma gln_binvA c : binvA c -> exists c', gln c = OK c' /\ binvA c'.
Proof.
  intros Hc. destruct (gln_ok c (binvA_glnable c Hc)) as [c' E]. exists c'. split; [exact E|].
  destruct (gln_spec c c' E) as [->|[E2 Hr]]; [exact Hc|].
  assert (Hrd : ready (markCombined c)).
  { pose proof (rnr_true_frozen c Hc Hr) as Hz. destruct Hc as [Hl [Hp [Hf Hb]]]. split; [repeat split; auto|split; [reflexivity|exact Hz]]. }
  destruct (pushReturn_ok (markCombined c) XNormal KNormal Hrd eq_refl) as [c2 [E3 Hb2]]. rewrite E3 in E2. inversion E2; subst. exact Hb2.
Qed.

Lemma pushReturn_mk k e kd : is_ret_kind kd = true -> exists c, pushReturn (mkBlock k) e kd = OK c /\ bstmts c = [SRet e].
Proof. intros H. unfold pushReturn, push, mkBlock. rewrite H. cbn. eexists. split; reflexivity. Qed.

Lemma comb_ok c k' : binvA c -> (forall c2, ready c2 -> okB (k' c2)) -> okB (comb c k').
Proof.
  intros Hc Hk. unfold comb. cbv zeta.
  assert (Ecr : combineRequired (markCombined c) = combineRequired c) by reflexivity. rewrite Ecr.
  destruct (combineRequired c) eqn:Er; cbn [negb].
  - unfold combineRequired in Er. destruct (lastKind c) as [k|] eqn:Ek; [|discriminate].
    destruct (pop_ok c k Hc Ek) as [s [c' [-> Hr']]]. cbn [bind].
    destruct (push_ok (mkBlock KDelay) s k (ready_mk KDelay eq_refl)) as [c1 [-> [_ [Hz [Hlast [Hbk [Hlen Hrm]]]]]]]. cbn [bind].
    assert (Hg : glnable c1).
    { repeat split; auto. rewrite Hbk. reflexivity. }
    destruct (gln_ok c1 Hg) as [c1' ->]. cbn [bind].
    apply okB_bind; [apply okB_ok_err; apply Hk; apply ready_mk; reflexivity|]. intros fol _.
    destruct (pushReturn_ok c' (XCombine (XDelay (TLit (bstmts c1'))) (XDelay (TLit (bstmts fol)))) KCombine Hr' eq_refl) as [c4 [-> Hb4]]. exact Hb4.
  - apply Hk. destruct Hc as [Hl [Hp [Hf Hb]]]. split; [|split; [reflexivity|]].
    + repeat split; auto.
    + cbn [markCombined frozen]. rewrite Hf. unfold combineRequired in Er. destruct (lastKind c) as [[]|]; try discriminate; reflexivity.
Qed.

(* continuations are handed freshly pushed blocks *)
Definition KA (k : blk -> res blk) : Prop := forall c, binvA c -> okB (k c).

Lemma accept f :
  (forall k ss cur, supps k ss = true -> ready cur -> okB (rw_stmts f ss cur)) /\
  (forall k s isLast cur kk, supp k s = true -> ready cur -> KA kk -> okB (rw_stmt f s isLast cur kk)) /\
  (forall k s cur, supp k s = true -> is_if s = true -> ready cur -> okB (rw_if f s cur)) /\
  (forall k init c post b cur kk, supp k (SFor init c post b) = true -> ready cur -> KA kk ->
      okB (rw_for f (SFor init c post b) init c post b cur kk)) /\
  (forall k init tag cases cur kk, supp k (SSwitch init tag cases) = true -> ready cur -> KA kk ->
      okB (rw_switch f (SSwitch init tag cases) init tag cases cur kk)).
Proof.
  induction f as [|f [IH1 [IH2 [IH3 [IH4 IH5]]]]]; [repeat split; intros; reflexivity|].
  assert (Hgln : forall fol, binvA fol -> okB (gln fol)).
  { intros fol Hfol. destruct (gln_binvA fol Hfol) as [c' [-> Hb]]. exact Hb. }
  assert (Htrivpush : forall cur s kk, ready cur -> KA kk -> okB (c <- push cur s KTrivial ;; kk c)).
  { intros cur s kk Hr Hk. destruct (push_ok cur s KTrivial Hr) as [c' [-> [Hb _]]]. cbn [bind]. apply Hk. apply Hb. reflexivity. }
  assert (Hyield : forall v cur (kk : blk -> res blk), ready cur -> okB (kk (mkBlock KDelay)) ->
            okB (fol <- kk (mkBlock KDelay) ;; pushReturn cur (XBind v (TLit (bstmts fol))) KYield)).
  { intros v cur kk Hr Hk. apply okB_bind; [apply okB_ok_err; exact Hk|]. intros fol _.
    destruct (pushReturn_ok cur (XBind v (TLit (bstmts fol))) KYield Hr eq_refl) as [c' [-> Hb]]. exact Hb. }
  split; [|split; [|split; [|split]]].
  - (* rw_stmts *)
    intros k ss cur Hss Hcur. rewrite rw_stmts_S. destruct ss as [|s rest].
    + destruct Hcur as [Hb _]. destruct (bkind cur); try exact Hb. apply Hgln. exact Hb.
    + unfold supps in Hss. cbn [forallb] in Hss. apply andb_prop in Hss. destruct Hss as [Hs Hrest]. cbv zeta.
      eapply IH2; [exact Hs|exact Hcur|]. intros fol Hfol.
      destruct rest as [|s2 rest2].
      * destruct (bkind fol); try exact Hfol. apply Hgln. exact Hfol.
      * apply comb_ok; [exact Hfol|]. intros c2 Hc2. eapply IH1; eauto.
  - (* rw_stmt *)
    intros k s isLast cur kk Hs Hcur Hk. destruct k as [|k]; [discriminate|]. rewrite supp_S in Hs. rewrite rw_stmt_S.
    destruct s as [a|v|b|ini cnd th el|ini tag cases|ini cnd post b| | | | |e]; try discriminate.
    + apply Htrivpush; assumption.
    + destruct isLast.
      * apply (Hyield v cur (fun c => gln c) Hcur). apply Hgln. apply binvA_mk. reflexivity.
      * apply (Hyield v cur kk Hcur). apply Hk. apply binvA_mk. reflexivity.
    + apply okB_bind; [apply okB_ok_err; eapply IH1; [exact Hs|apply ready_mk; reflexivity]|]. intros fol _.
      destruct (mustNoYield fol).
      * apply Htrivpush; assumption.
      * destruct (pushReturn_ok cur (XDelay (TLit (bstmts fol))) KYield Hcur eq_refl) as [c' [-> Hb]]. cbn [bind]. apply Hk. exact Hb.
    + pose proof (IH3 (S k) (SIf ini cnd th el) cur) as H3. rewrite supp_S in H3. specialize (H3 Hs eq_refl Hcur).
      destruct (rw_if f (SIf ini cnd th el) cur) as [c|e]; cbn [bind]; [|exact H3].
      destruct isLast; [apply Hgln; exact H3|apply Hk; exact H3].
    + eapply (IH5 (S k)); [rewrite supp_S; exact Hs|exact Hcur|]. intros c Hc.
      destruct isLast; [|apply Hk; exact Hc]. destruct (lastKind c) as [[]|]; try (apply Hk; exact Hc). apply Hgln. exact Hc.
    + eapply (IH4 (S k)); [rewrite supp_S; exact Hs|exact Hcur|exact Hk].
    + destruct (push_ok cur SBreak KTrivial Hcur) as [c' [-> [Hb _]]]. apply Hb. reflexivity.
    + destruct (push_ok cur SContinue KTrivial Hcur) as [c' [-> [Hb _]]]. apply Hb. reflexivity.
    + destruct (push_ok cur SFallthrough KTrivial Hcur) as [c' [-> [Hb _]]]. apply Hb. reflexivity.
    + apply Htrivpush; assumption.
  - (* rw_if *)
    intros k s cur Hs Hif Hcur. destruct k as [|k]; [discriminate|]. rewrite supp_S in Hs.
    destruct s as [a|v|b|init c th el|ini tag cases|ini cnd post b| | | | |e]; try discriminate. rewrite rw_if_S.
    apply andb_prop in Hs. destruct Hs as [Hs He]. apply andb_prop in Hs. destruct Hs as [Hi Ht].
    rewrite (init_ok_hasYo _ Hi).
    apply okB_bind; [apply okB_ok_err; exact (IH1 k th (mkBlock KIf) Ht (ready_mk KIf eq_refl))|]. intros body _.
    assert (Hpush : forall s0 kd, is_ret_kind kd = false -> okB (push cur s0 kd)).
    { intros s0 kd Hkd. destruct (push_ok cur s0 kd Hcur) as [c' [-> [Hb' _]]]. apply Hb'. exact Hkd. }
    destruct el as [|eb|alt].
    + destruct (mustNoYield body); apply Hpush; reflexivity.
    + apply okB_bind; [apply okB_ok_err; exact (IH1 k eb (mkBlock KIf) He (ready_mk KIf eq_refl))|]. intros els _.
      destruct (mustNoYield body && mustNoYield els); apply Hpush; reflexivity.
    + apply andb_prop in He. destruct He as [Hisif Halt].
      apply okB_bind; [apply okB_ok_err; exact (IH3 k alt (mkBlock KIf) Halt Hisif (ready_mk KIf eq_refl))|]. intros els _.
      destruct (mustNoYield body && mustNoYield els); apply Hpush; reflexivity.
  - (* rw_for *)
    intros k init c post b cur kk Hs Hcur Hk. destruct k as [|k]; [discriminate|]. rewrite supp_S in Hs.
    apply andb_prop in Hs. destruct Hs as [Hs Hb]. apply andb_prop in Hs. destruct Hs as [Hi Hp].
    rewrite rw_for_S.
    pose proof (IH1 k b (mkBlock KFor) Hb (ready_mk KFor eq_refl)) as Hbody.
    destruct (rw_stmts f b (mkBlock KFor)) as [body|e0] eqn:Ebody; cbn [bind]; [|exact Hbody]. cbv zeta.
    (* the hoisted init statement *)
    assert (Hinit : forall after : blk -> res blk, (forall c2, binvA c2 -> okB (after c2)) ->
              okB (match init with None => after cur | Some i => rw_stmt f i false cur after end)).
    { intros after Ha. destruct init as [i|]; [|apply Ha; apply Hcur].
      destruct f as [|f']; [reflexivity|]. rewrite rw_stmt_S. destruct i; try discriminate.
      - destruct (push_ok cur (SAtom a) KTrivial Hcur) as [c' [-> [Hb' _]]]. cbn [bind]. apply Ha. apply Hb'. reflexivity.
      - apply (Hyield v cur after Hcur). apply Ha. apply binvA_mk. reflexivity. }
    assert (Hret : forall e c2, binvA c2 -> okB (comb c2 (fun c3 => c4 <- pushReturn c3 e KFor ;; kk c4))).
    { intros e c2 Hc2. apply comb_ok; [exact Hc2|]. intros c3 Hc3.
      destruct (pushReturn_ok c3 e KFor Hc3 eq_refl) as [c4 [-> Hb4]]. cbn [bind]. apply Hk. exact Hb4. }
    unfold post_okb in Hp. destruct post as [[a|v|? |? ? ? ?|? ? ?|? ? ? ?| | | | |?]|]; try discriminate.
    + (* post is an atom *)
      change (hasYo (Some (SAtom a))) with false. cbn [negb]. rewrite !andb_true_r.
      destruct (negb (hasYo init) && mustNoYield body); [apply Htrivpush; assumption|].
      apply Hinit. intros c2 Hc2. destruct (mustNoYield body); [|apply Hret; exact Hc2].
      apply comb_ok; [exact Hc2|]. intros c3 Hc3.
      destruct (push_ok c3 (SFor None c (Some (SAtom a)) b) KTrivial Hc3) as [c4 [-> [Hb4 _]]]. cbn [bind]. apply Hk. apply Hb4. reflexivity.
    + (* post is a Yield *)
      change (hasYo (Some (SYield v))) with true. cbn [negb andb]. rewrite !andb_false_r. cbn [negb].
      apply Hinit. intros c2 Hc2.
      apply okB_bind; [|intros body' _; apply Hret; exact Hc2].
      destruct f as [|f']; [destruct (combineRequired body); reflexivity|].
      destruct (gln_binvA (mkBlock KDelay) (binvA_mk KDelay eq_refl)) as [fol [Efol _]].
      destruct (combineRequired body) eqn:Ecr.
      * rewrite rw_stmt_S. rewrite Efol. cbn [bind].
        destruct (pushReturn_mk KDelay (XBind v (TLit (bstmts fol))) KYield eq_refl) as [pb [-> Epb]]. cbn [bind].
        unfold lastStmt. rewrite Epb. cbn [map last].
        destruct (gln_binvA body Hbody) as [b1 [-> _]]. cbn [bind].
        destruct (pushReturn_mk (bkind body) (XCombine (XDelay (TLit (bstmts b1))) (XDelay (TLit [SRet (XBind v (TLit (bstmts fol)))]))) KCombine eq_refl) as [c5 [E5 _]].
        rewrite E5. exact I.
      * rewrite rw_stmt_S. rewrite Efol. cbn [bind].
        assert (Hr : ready (markCombined body)).
        { destruct Hbody as [Hl [Hpp [Hf Hbk]]]. split; [repeat split; auto|split; [reflexivity|]].
          cbn [markCombined frozen]. rewrite Hf. unfold combineRequired in Ecr. destruct (lastKind body) as [[]|]; try discriminate; reflexivity. }
        destruct (pushReturn_ok (markCombined body) (XBind v (TLit (bstmts fol))) KYield Hr eq_refl) as [c5 [-> _]]. exact I.
    + (* no post *)
      cbn [hasYo negb]. rewrite !andb_true_r.
      destruct (negb (hasYo init) && mustNoYield body); [apply Htrivpush; assumption|].
      apply Hinit. intros c2 Hc2. destruct (mustNoYield body); [|apply Hret; exact Hc2].
      apply comb_ok; [exact Hc2|]. intros c3 Hc3.
      destruct (push_ok c3 (SFor None c None b) KTrivial Hc3) as [c4 [-> [Hb4 _]]]. cbn [bind]. apply Hk. apply Hb4. reflexivity.
  - (* rw_switch *)
    intros k init tag cases cur kk Hs Hcur Hk. destruct k as [|k]; [discriminate|]. rewrite supp_S in Hs.
    apply andb_prop in Hs. destruct Hs as [Hi Hc]. rewrite rw_switch_S.
    apply okB_bind.
    { clear - Hc IH1. induction cases as [|[lab b] r IHr]; [exact I|]. cbn [rw_cases]. fold (rw_cases f).
      cbn [forallb snd] in Hc. apply andb_prop in Hc. destruct Hc as [Hb Hr]. apply clause_ok_inv in Hb. destruct Hb as [Hb1 _].
      apply ok_err_bind; [apply okB_ok_err; eapply IH1; [exact Hb1|apply ready_mk; reflexivity]|]. intros cb _.
      apply ok_err_bind; [apply IHr; exact Hr|]. intros rr _. exact I. }
    intros [cases' allTrivial] _.
    assert (Hcomb : forall c2, binvA c2 ->
              okB (comb c2 (fun c3 => c4 <- push c3 (SSwitch None tag cases') KSwitch ;; kk c4))).
    { intros c2 Hc2. apply comb_ok; [exact Hc2|]. intros c3 Hc3.
      destruct (push_ok c3 (SSwitch None tag cases') KSwitch Hc3) as [c4 [-> [Hb4 _]]]. cbn [bind]. apply Hk. apply Hb4. reflexivity. }
    destruct init as [i|].
    + destruct i; try discriminate.
      * cbn [hasYo hasY]. change (hasY (SAtom a)) with false. cbn [negb andb].
        destruct allTrivial; [apply Htrivpush; assumption|].
        destruct f as [|f']; [reflexivity|]. rewrite rw_stmt_S.
        destruct (push_ok cur (SAtom a) KTrivial Hcur) as [c' [-> [Hb' _]]]. cbn [bind]. apply Hcomb. apply Hb'. reflexivity.
      * change (hasYo (Some (SYield v))) with true. cbn [negb andb].
        destruct f as [|f']; [reflexivity|]. rewrite rw_stmt_S.
        destruct allTrivial.
        -- apply (Hyield v cur (fun c2 => c3 <- push c2 (SSwitch None tag cases) KTrivial ;; kk c3) Hcur).
           apply Htrivpush; [apply ready_mk; reflexivity|exact Hk].
        -- apply (Hyield v cur (fun c2 => comb c2 (fun c3 => c4 <- push c3 (SSwitch None tag cases') KSwitch ;; kk c4)) Hcur).
           apply Hcomb. apply binvA_mk. reflexivity.
    + cbn [hasYo negb andb]. destruct allTrivial; [apply Htrivpush; assumption|]. apply Hcomb. apply Hcur.
Qed.

Theorem rewrite_no_assert k body :
  supps k (map (pass0 400) body) = true ->
  match rewrite body with OK _ => True | Err e => e = E_FUEL end.
Proof.
  intros Hs. unfold rewrite. cbv zeta.
  pose proof (proj1 (accept (50 + 4 * size 400 (SBlock (map (pass0 400) body)))) k (map (pass0 400) body) (mkBlock KDelay) Hs (ready_mk KDelay eq_refl)) as H.
  destruct (rw_stmts (50 + 4 * size 400 (SBlock (map (pass0 400) body))) (map (pass0 400) body) (mkBlock KDelay)) as [r|e]; cbn [bind]; [exact I|exact H].
Qed.
