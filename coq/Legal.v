(* Legal.v — every function literal the rewriter model generates ends in a terminating statement
   (Go's "missing return" cannot happen), on the supported fragment, for any fuel:
   the body handed to Start(Delay(...)), the continuation of every Bind, both halves of every
   Combine, every loop body callback.  This is the part of "the output builds" (C11) that the
   rewriter is responsible for through generateLastNormalIfNecessary / combineIfNecessary. *)
From Coq Require Import List Arith Bool Lia.
From Verif Require Import Base Syntax Rewrite Side P3Rel RwCorrect Accept.
Import ListNotations.

(* the last statement of a function body is terminating (isTerminating = the transcribed checker) *)
(* (a trailing break / continue at the top level of a function literal is turned into
   `return seq.Break() / seq.Continue()` by pass3: Placement.v) *)
Definition termS (s : stmt) : Prop := isTerminating s = true \/ s = SBreak \/ s = SContinue \/ s = SFallthrough.
Definition lastT (l : list stmt) : Prop := exists s, last (map Some l) None = Some s /\ termS s.

Lemma supp2_S sf k s :
  supp2 sf (S k) s =
    match s with
    | SAtom _ | SYield _ | SBreak | SContinue => true
    | SFallthrough => negb sf
    | SRet XReturn => true
    | SBlock b => forallb (supp2 sf k) b
    | SIf i c t e =>
        init_ok i && forallb (supp2 sf k) t &&
        match e with
        | ENone => true
        | EElse b => forallb (supp2 sf k) b
        | EElif x => is_if x && supp2 sf k x
        end
    | SFor i c p b => init_ok2 i && post_okb k p b && forallb (supp2 sf k) b
    | SSwitch i t cs => init_ok2 i && forallb (fun lb => clause_ok (supp2 sf k) k (snd lb)) cs
    | _ => false
    end.
Proof. reflexivity. Qed.

Lemma forallb_ext_in {A} (f g : A -> bool) l : (forall x, In x l -> f x = g x) -> forallb f l = forallb g l.
Proof. induction l as [|a r IH]; intros H; [reflexivity|]. cbn. rewrite (H a (or_introl eq_refl)), IH; [reflexivity|]. intros x Hx. apply H. right. exact Hx. Qed.

Lemma supp2_false k : forall s, supp2 false k s = supp k s.
Proof.
  induction k as [|k IH]; intros s; [reflexivity|]. rewrite supp2_S, supp_S.
  assert (HL : forall l, forallb (supp2 false k) l = forallb (supp k) l) by (intros l; apply forallb_ext_in; intros x _; apply IH).
  destruct s as [a|v|b|i c t e|i tag cs|i c p b| | | | |e]; try reflexivity.
  - apply HL.
  - rewrite (HL t). destruct e as [|eb|x]; [reflexivity|rewrite (HL eb); reflexivity|rewrite (IH x); reflexivity].
  - f_equal. apply forallb_ext_in. intros lb _. unfold clause_ok. rewrite (HL (snd lb)). reflexivity.
  - rewrite (HL b). reflexivity.
Qed.

Lemma supp2_supp sf k : forall s, supp2 sf k s = true -> supp k s = true.
Proof.
  induction k as [|k IH]; intros s H; [discriminate|]. rewrite supp2_S in H. rewrite supp_S.
  assert (HL : forall l, forallb (supp2 sf k) l = true -> forallb (supp k) l = true).
  { intros l. apply forallb_imp. exact IH. }
  destruct s as [a|v|b|i c t e|i tag cs|i c p b| | | | |e]; try exact H; try reflexivity; try discriminate.
  - apply HL. exact H.
  - apply andb_prop in H. destruct H as [H He]. apply andb_prop in H. destruct H as [Hi Ht]. rewrite Hi, (HL t Ht).
    destruct e as [|eb|x]; [reflexivity|rewrite (HL eb He); reflexivity|].
    apply andb_prop in He. destruct He as [H1 H2]. rewrite H1, (IH x H2). reflexivity.
  - apply andb_prop in H. destruct H as [Hi Hc]. rewrite Hi. cbn [andb].
    apply forallb_imp with (f := fun lb => clause_ok (supp2 sf k) k (snd lb)); [|exact Hc].
    intros lb Hlb. unfold clause_ok in *. apply andb_prop in Hlb. destruct Hlb as [H1 H2]. rewrite (HL _ H1), H2. reflexivity.
  - apply andb_prop in H. destruct H as [H Hb]. rewrite H, (HL b Hb). reflexivity.
Qed.

Lemma supps2_supps sf k l : supps2 sf k l = true -> supps k l = true.
Proof. unfold supps2, supps. apply forallb_imp. apply supp2_supp. Qed.

Lemma supps2_false k l : supps2 false k l = supps k l.
Proof. unfold supps2, supps. apply forallb_ext_in. intros x _. apply supp2_false. Qed.

Lemma init_ok2_supp2 sf i x k : init_ok2 i = true -> i = Some x -> supp2 sf (S k) x = true.
Proof. intros H ->. destruct x; try discriminate; reflexivity. Qed.

Section L.
  Variable sf : bool.
  Notation supp := (supp2 sf).
  Notation supps := (supps2 sf).
  Notation supp_S := (supp2_S sf).
  Notation init_ok2_supp := (init_ok2_supp2 sf).

Inductive WT : stmt -> Prop :=
| wt_atom a : WT (SAtom a)
| wt_yield v : WT (SYield v)
| wt_block b : Forall WT b -> WT (SBlock b)
| wt_if i c t e : Forall WT t -> WTE e -> WT (SIf i c t e)
| wt_switch i tag cs : Forall (fun lb => Forall WT (snd lb)) cs -> WT (SSwitch i tag cs)
| wt_for i c p b : Forall WT b -> WT (SFor i c p b)
| wt_break : WT SBreak
| wt_continue : WT SContinue
| wt_return : sf = false -> WT SReturn
| wt_fallthrough : sf = false -> WT SFallthrough
| wt_ret e : WTX e -> WT (SRet e)
with WTE : els -> Prop :=
| wte_none : WTE ENone
| wte_else b : Forall WT b -> WTE (EElse b)
| wte_elif s : WT s -> WTE (EElif s)
with WTX : sexp -> Prop :=
| wx_bind v t : WTT t -> WTX (XBind v t)
| wx_delay t : WTT t -> WTX (XDelay t)
| wx_combine a b : WTX a -> WTX b -> WTX (XCombine a b)
| wx_for c p body : WTX body -> WTX (XFor c p body)
| wx_normal : WTX XNormal
| wx_break : WTX XBreak
| wx_continue : WTX XContinue
| wx_return : WTX XReturn
with WTT : thunk -> Prop :=
| wtt_lit l : Forall WT l -> lastT l -> WTT (TLit l)
| wtt_sig x : is_sig x = true -> WTT (TSig x).

Lemma supp_WT k : forall s, supp k s = true -> WT s.
Proof.
  induction k as [|k IH]; intros s H; [discriminate|].
  assert (HL : forall l, forallb (supp k) l = true -> Forall WT l).
  { intros l Hl. apply Forall_forall. intros x Hx. apply IH. rewrite forallb_forall in Hl. auto. }
  rewrite supp_S in H. destruct s as [a|v|b|i c t e|i tag cs|i c p b| | | | |e]; try discriminate; try constructor;
    try (destruct sf; [discriminate H|reflexivity]).
  - apply HL. exact H.
  - apply andb_prop in H. destruct H as [H He]. apply andb_prop in H. destruct H as [Hi Ht]. apply HL. exact Ht.
  - apply andb_prop in H. destruct H as [H He]. destruct e; constructor; [apply HL; exact He|].
    apply andb_prop in He. apply IH. tauto.
  - apply andb_prop in H. destruct H as [Hi Hc]. apply Forall_forall. intros lb Hlb. rewrite forallb_forall in Hc.
    specialize (Hc lb Hlb). apply clause_ok_inv in Hc. apply HL. tauto.
  - apply andb_prop in H. destruct H as [H Hb]. apply HL. exact Hb.
  - destruct e; try discriminate. constructor.
Qed.

Lemma isTerminating_ret e : isTerminating (SRet e) = true.
Proof. reflexivity. Qed.

Lemma lastT_snoc_ret l e : lastT (l ++ [SRet e]).
Proof. exists (SRet e). split; [apply last_app_some|left; apply isTerminating_ret]. Qed.

(* ---- blocks under construction ---- *)
Definition tinv (c : blk) : Prop :=
  length (bstmts c) = length (bkinds c) /\
  Forall WT (bstmts c) /\
  forallb is_triv (removelast (bkinds c)) = true /\
  (forall k, lastKind c = Some k -> is_ret_kind k = true -> exists e, lastStmt c = Some (SRet e)) /\
  lastKind c <> Some KDelay /\
  (combineRequired c = true -> checked c = false).

(* what is required of a finished block *)
Definition termB (B : blk) : Prop :=
  Forall WT (bstmts B) /\
  (bkind B = KDelay -> lastT (bstmts B)) /\
  (bkind B = KFor -> mustNoYield B = false -> lastT (bstmts B)) /\
  (bkind B <> KSwitch -> combineRequired B = true -> lastT (bstmts B)).

Definition nolastIf (c : blk) : Prop := match lastKind c with Some KIf | Some KSwitch => False | _ => True end.
Definition TK (kk : blk -> res blk) (strict : bool) : Prop :=
  forall c B, tinv c -> (strict = true -> nolastIf c) -> kk c = OK B -> termB B /\ bkind B = bkind c.

Lemma tinv_mk k : tinv (mkBlock k).
Proof.
  unfold tinv. cbn. split; [reflexivity|]. split; [constructor|]. split; [reflexivity|].
  split; [intros k0 H; discriminate|]. split; [discriminate|discriminate].
Qed.

Lemma removelast_app1 {A} (l : list A) x : removelast (l ++ [x]) = l.
Proof. apply removelast_last. Qed.

Lemma alltriv_all (ks : list kind) : forallb is_triv (removelast ks) = true ->
  match last (map Some ks) None with Some KTrivial | None => forallb is_triv ks = true | _ => True end.
Proof.
  destruct ks as [|k0 r]; [reflexivity|].
  assert (H : exists k, last (map Some (k0 :: r)) None = Some k /\ (k0 :: r) = removelast (k0 :: r) ++ [k]).
  { clear. revert k0. induction r as [|k1 r IH]; intros k0; [exists k0; split; reflexivity|].
    destruct (IH k1) as [k [H1 H2]]. exists k. split; [exact H1|]. change (removelast (k0 :: k1 :: r)) with (k0 :: removelast (k1 :: r)).
    cbn [app]. f_equal. exact H2. }
  destruct H as [k [H1 H2]]. rewrite H1. intros Ht. destruct k; try exact I. rewrite H2, forallb_app, Ht. reflexivity.
Qed.

(* a block whose last kind is trivial (or that is empty) contains no yield *)
Lemma tinv_trivial_last c : tinv c -> combineRequired c = false -> mustNoYield c = true.
Proof.
  intros [_ [_ [Hrm _]]] Hcr. pose proof (alltriv_all _ Hrm) as Ha. unfold combineRequired, mustNoYield, mayContainsYield, lastKind in *.
  destruct (last (map Some (bkinds c)) None) as [[]|]; try discriminate; try reflexivity.
  rewrite (noifsw_triv _ Ha). reflexivity.
Qed.

Lemma tinv_alltriv c : tinv c -> combineRequired c = false -> forallb is_triv (bkinds c) = true.
Proof.
  intros [_ [_ [Hrm _]]] Hcr. pose proof (alltriv_all _ Hrm) as Ha. unfold combineRequired, lastKind in Hcr.
  destruct (last (map Some (bkinds c)) None) as [[]|]; try discriminate; exact Ha.
Qed.

Lemma push_tinv c s k c' : tinv c -> combineRequired c = false -> WT s -> is_ret_kind k = false -> k <> KDelay -> push c s k = OK c' ->
  tinv c' /\ lastKind c' = Some k /\ bkind c' = bkind c.
Proof.
  intros Hc Hcr Hs Hk Hkd H. pose proof (tinv_alltriv c Hc Hcr) as Hall. destruct Hc as [Hl [Hw _]].
  unfold push in H. destruct (negb (checked c) || frozen c); [discriminate|]. inversion H; subst. clear H.
  assert (El : lastKind {| bstmts := bstmts c ++ [s]; bkinds := bkinds c ++ [k]; bkind := bkind c; frozen := false; checked := false |} = Some k)
    by (unfold lastKind; cbn [bkinds]; apply last_app_some).
  split; [|split; [exact El|reflexivity]].
  unfold tinv. cbn [bstmts bkinds checked]. rewrite El.
  split; [rewrite !app_length; cbn; lia|]. split; [apply Forall_app; split; [exact Hw|constructor; [exact Hs|constructor]]|].
  split; [rewrite removelast_app1; exact Hall|]. split; [intros k0 E Hr; inversion E; subst; congruence|].
  split; [intros E; inversion E; congruence|reflexivity].
Qed.

Lemma pushReturn_tinv c e k c' : tinv c -> combineRequired c = false -> WTX e -> pushReturn c e k = OK c' ->
  tinv c' /\ lastT (bstmts c') /\ bkind c' = bkind c /\ nolastIf c'.
Proof.
  intros Hc Hcr He H. pose proof (tinv_alltriv c Hc Hcr) as Hall. destruct Hc as [Hl [Hw _]].
  unfold pushReturn in H. destruct (is_ret_kind k) eqn:Ek; cbn [negb] in H; [|discriminate].
  unfold push in H. destruct (negb (checked c) || frozen c); cbn [bind] in H; [discriminate|]. inversion H; subst. clear H. cbn [bstmts bkinds bkind].
  assert (El : last (map Some (bkinds c ++ [k])) None = Some k) by apply last_app_some.
  split; [|split; [apply lastT_snoc_ret|split; [reflexivity|]]].
  - unfold tinv, lastKind, lastStmt. cbn [bstmts bkinds checked]. rewrite El.
    split; [rewrite !app_length; cbn; lia|]. split; [apply Forall_app; split; [exact Hw|constructor; [constructor; exact He|constructor]]|].
    split; [rewrite removelast_app1; exact Hall|]. split; [intros k0 E Hr; exists e; apply last_app_some|].
    split; [intros E; inversion E; subst; discriminate|reflexivity].
  - unfold nolastIf, lastKind. cbn [bkinds]. rewrite El. destruct k; try discriminate; exact I.
Qed.

(* generateLastNormalIfNecessary leaves a terminating last statement (except in case bodies, which may fall out) *)
Lemma gln_lastT c B : tinv c -> bkind c <> KSwitch -> gln c = OK B -> lastT (bstmts B) /\ Forall WT (bstmts B).
Proof.
  intros Hc Hns H. pose proof Hc as [Hl [Hw [Hrm [Hret [Hnd Hchk]]]]].
  destruct (gln_cases _ H) as [->|H2].
  2:{ rewrite (pushReturn_stmts _ _ _ H2). cbn [markCombined bstmts]. split; [apply lastT_snoc_ret|].
      apply Forall_app. split; [exact Hw|constructor; [constructor; constructor|constructor]]. }
  split; [|exact Hw].
  unfold gln in H. destruct (bkind c) eqn:Ek; try congruence.
  all: destruct (returnNormalRequired c) as [[|]|] eqn:Er; cbn [bind] in H; try discriminate.
  all: try (exfalso; pose proof (pushReturn_stmts _ _ _ H) as E; cbn [markCombined bstmts] in E;
            apply (f_equal (@length stmt)) in E; rewrite app_length in E; cbn in E; lia).
  all: unfold returnNormalRequired in Er; rewrite Ek in Er.
  all: destruct (lastStmt c) as [s|] eqn:Es; destruct (lastKind c) as [k|] eqn:El; try discriminate.
  all: destruct k; try (destruct (Hret _ eq_refl eq_refl) as [e Ee]; inversion Ee; subst; exists (SRet e); split; [exact Es|left; reflexivity]).
  all: try (exists s; split; [exact Es|]; left; destruct (isTerminating s); [reflexivity|discriminate]).
  all: try discriminate; try (exfalso; apply Hnd; reflexivity).
Qed.

Lemma gln_bkind c B : gln c = OK B -> bkind B = bkind c.
Proof.
  intros H. destruct (gln_cases _ H) as [->|H2]; [reflexivity|]. apply (proj2 (pushReturn_kinds _ _ _ H2)).
Qed.

Lemma last_In {A} (l : list A) x : last (map Some l) None = Some x -> In x l.
Proof.
  induction l as [|a r IH]; [discriminate|]. destruct r as [|b r']; [cbn; intros H; inversion H; auto|].
  intros H. right. apply IH. exact H.
Qed.

Lemma gln_termB c B : tinv c -> gln c = OK B -> termB B.
Proof.
  intros Hc H. pose proof (gln_bkind _ _ H) as Eb.
  destruct (kind_eqb (bkind c) KSwitch) eqn:Eks.
  - assert (Ek : bkind c = KSwitch) by (destruct (bkind c); try discriminate; reflexivity).
    unfold gln in H. rewrite Ek in H. inversion H; subst. destruct Hc as [_ [Hw _]].
    split; [exact Hw|]. split; [congruence|]. split; [congruence|congruence].
  - assert (Hns : bkind c <> KSwitch) by (intros E; rewrite E in Eks; discriminate).
    destruct (gln_lastT c B Hc Hns H) as [Hl Hw]. split; [exact Hw|]. split; [intros _; exact Hl|]. split; intros; exact Hl.
Qed.

Lemma pushReturn_termB c e k B : Forall WT (bstmts c) -> WTX e -> pushReturn c e k = OK B -> termB B /\ bkind B = bkind c.
Proof.
  intros Hw He H. pose proof (pushReturn_stmts _ _ _ H) as Es. destruct (pushReturn_kinds _ _ _ H) as [_ Eb].
  split; [|exact Eb]. split; [rewrite Es; apply Forall_app; split; [exact Hw|constructor; [constructor; exact He|constructor]]|].
  split; [|split]; intros; rewrite Es; apply lastT_snoc_ret.
Qed.

Lemma Forall_removelast' {A} (Pp : A -> Prop) l : Forall Pp l -> Forall Pp (removelast l).
Proof. induction 1 as [|a l Ha Hl IH]; [constructor|]. destruct l; [constructor|]. cbn [removelast]. constructor; assumption. Qed.

(* combineIfNecessary *)
Lemma comb_term c k' B : tinv c ->
  (forall c2 B2, tinv c2 -> combineRequired c2 = false -> k' c2 = OK B2 -> termB B2 /\ bkind B2 = bkind c2) ->
  comb c k' = OK B -> termB B /\ bkind B = bkind c.
Proof.
  intros Hc Hk H. pose proof Hc as [Hl [Hw [Hrm [Hret [Hnd Hchk]]]]]. unfold comb in H. rewrite combineRequired_mark in H.
  destruct (combineRequired c) eqn:Ecr; cbn [negb] in H.
  - destruct (pop (markCombined c)) as [[[s kd] cur']|] eqn:Ep; cbn [bind] in H; [|discriminate].
    pose proof (pop_stmts _ Ep) as Es. cbn [markCombined bstmts] in Es.
    unfold pop in Ep. destruct (lastStmt (markCombined c)) as [s0|] eqn:Els; [|discriminate].
    destruct (lastKind (markCombined c)) as [k0|] eqn:Elk; [|discriminate]. inversion Ep; subst s0 k0 cur'. clear Ep.
    destruct (push (mkBlock KDelay) s kd) as [c1|] eqn:E1; cbn [bind] in H; [|discriminate].
    destruct (gln c1) as [c1'|] eqn:E1'; cbn [bind] in H; [|discriminate].
    destruct (k' (mkBlock KDelay)) as [fol|] eqn:Ef; cbn [bind] in H; [|discriminate].
    assert (Hs : WT s) by (eapply Forall_forall; [exact Hw|]; apply last_In; exact Els).
    assert (Hc1 : tinv c1).
    { unfold push in E1. cbn in E1. inversion E1; subst. unfold tinv, lastKind, lastStmt. cbn.
      split; [reflexivity|]. split; [constructor; [exact Hs|constructor]|]. split; [reflexivity|].
      split; [intros k0 E Hr; inversion E; subst; destruct (Hret _ Elk Hr) as [e Ee]; unfold lastStmt in Ee, Els; cbn [markCombined bstmts] in Els;
              rewrite Ee in Els; inversion Els; subst; exists e; reflexivity|].
      split; [intros E; inversion E; subst; apply Hnd; exact Elk|reflexivity]. }
    destruct (gln_termB c1 c1' Hc1 E1') as [Hw1 [Ht1 _]]. pose proof (gln_bkind _ _ E1') as Eb1.
    assert (Ek1 : bkind c1 = KDelay) by (unfold push in E1; cbn in E1; inversion E1; reflexivity).
    destruct (Hk (mkBlock KDelay) fol (tinv_mk KDelay) eq_refl Ef) as [[Hwf [Htf _]] Ebf].
    eapply pushReturn_termB in H.
    + destruct H as [H1 H2]. split; [exact H1|exact H2].
    + cbn [bstmts markCombined]. apply Forall_removelast'. exact Hw.
    + constructor; constructor; constructor; auto. apply Ht1. congruence.
  - destruct (Hk (markCombined c) B) as [H1 H2]; [|exact Ecr|exact H|split; [exact H1|exact H2]].
    destruct Hc as [A1 [A2 [A3 [A4 [A5 A6]]]]]. unfold tinv. cbn [markCombined bstmts bkinds checked].
    split; [exact A1|]. split; [exact A2|]. split; [exact A3|]. split; [exact A4|]. split; [exact A5|].
    intros E. change (combineRequired (markCombined c)) with (combineRequired c) in E. congruence.
Qed.

Lemma nolast_triv c : lastKind c = Some KTrivial -> nolastIf c.
Proof. unfold nolastIf. intros ->. exact I. Qed.

Lemma unwrapIf_WTE b : Forall WT b -> WTE (unwrapIf b).
Proof.
  intros H. unfold unwrapIf. destruct b as [|s [|s2 r]]; try (constructor; exact H).
  - destruct s; try (constructor; exact H). inversion H; subst. constructor. assumption.
  - destruct s; constructor; exact H.
Qed.

Lemma rw_term f :
  (forall k ss cur B, supps k ss = true -> tinv cur -> combineRequired cur = false ->
      rw_stmts f ss cur = OK B -> termB B /\ bkind B = bkind cur) /\
  (forall k s isLast cur kk B, supp k s = true -> tinv cur -> combineRequired cur = false -> TK kk isLast ->
      rw_stmt f s isLast cur kk = OK B -> termB B /\ bkind B = bkind cur) /\
  (forall k s cur c', supp k s = true -> is_if s = true -> tinv cur -> combineRequired cur = false ->
      rw_if f s cur = OK c' -> tinv c' /\ bkind c' = bkind cur) /\
  (forall k init c post b cur kk B strict, supp k (SFor init c post b) = true -> tinv cur -> combineRequired cur = false -> TK kk strict ->
      rw_for f (SFor init c post b) init c post b cur kk = OK B -> termB B /\ bkind B = bkind cur) /\
  (forall k init tag cases cur kk B, supp k (SSwitch init tag cases) = true -> tinv cur -> combineRequired cur = false ->
      (forall c0 B0, tinv c0 -> (lastKind c0 = Some KSwitch \/ lastKind c0 = Some KTrivial \/ lastKind c0 = None) -> kk c0 = OK B0 -> termB B0 /\ bkind B0 = bkind c0) ->
      rw_switch f (SSwitch init tag cases) init tag cases cur kk = OK B -> termB B /\ bkind B = bkind cur).
Proof.
  induction f as [|f [IH1 [IH2 [IH3 [IH4 IH5]]]]]; [repeat split; intros; discriminate|].
  (* pushing the statement as it is, then the continuation *)
  assert (Hpushk : forall cur s kk strict B, tinv cur -> combineRequired cur = false -> WT s -> TK kk strict ->
            (c <- push cur s KTrivial ;; kk c) = OK B -> termB B /\ bkind B = bkind cur).
  { intros cur s kk strict B Hc Hcr Hs Hk H. destruct (bind_ok _ _ H) as [c [Hp Hkc]].
    destruct (push_tinv cur s KTrivial c Hc Hcr Hs eq_refl ltac:(discriminate) Hp) as [Hc' [El Eb]].
    destruct (Hk c B Hc' (fun _ => nolast_triv c El) Hkc) as [H1 H2]. split; [exact H1|congruence]. }
  (* the last continuation of a statement list *)
  assert (Hlast : TK (fun fol => match bkind fol with KDelay => gln fol | _ => OK fol end) true).
  { intros c B Hc Hn H. specialize (Hn eq_refl). pose proof Hc as [Hl [Hw [Hrm [Hret [Hnd Hchk]]]]].
    destruct (bkind c) eqn:Ek; try (split; [eapply gln_termB; eauto|rewrite (gln_bkind _ _ H); exact Ek]).
    all: inversion H; subst; split; [|exact Ek]; split; [exact Hw|]; split; [intros E; congruence|].
    all: assert (Hretk : combineRequired B = true -> lastT (bstmts B)).
    all: try (intros Hcrt; unfold nolastIf in Hn; unfold combineRequired in Hcrt; destruct (lastKind B) as [kd|] eqn:El; [|discriminate Hcrt];
              destruct kd; try contradiction; try discriminate Hcrt;
              destruct (Hret _ eq_refl eq_refl) as [e Ee]; exists (SRet e); (split; [exact Ee|left; reflexivity])).
    all: split; [|intros _; exact Hretk].
    all: intros E; try congruence.
    intros Hm. destruct (combineRequired B) eqn:Ecr; [apply Hretk; reflexivity|].
    rewrite (tinv_trivial_last B Hc Ecr) in Hm. discriminate. }
  (* the init statement hoisted in front of a loop / switch *)
  assert (Hinit : forall (k : nat) (init : option stmt) cur after B, init_ok2 init = true -> tinv cur -> combineRequired cur = false -> TK after false ->
            match init with None => after cur | Some i => rw_stmt f i false cur after end = OK B -> termB B /\ bkind B = bkind cur).
  { intros k init cur after B Hi Hc Hcr Ha H. destruct init as [i|].
    - eapply (IH2 (S k) i false cur after B); [eapply init_ok2_supp; eauto|exact Hc|exact Hcr|exact Ha|exact H].
    - eapply Ha; [exact Hc|discriminate|exact H]. }
  split; [|split; [|split; [|split]]].
  - (* rw_stmts *)
    intros k ss cur B Hss Hc Hcr H. rewrite rw_stmts_S in H. destruct ss as [|s rest].
    + eapply Hlast; [exact Hc| |exact H]. intros _. unfold nolastIf. unfold combineRequired in Hcr. destruct (lastKind cur) as [[]|]; try discriminate; exact I.
    + unfold supps in Hss. cbn [forallb] in Hss. apply andb_prop in Hss. destruct Hss as [Hs Hrest]. cbv zeta in H.
      destruct rest as [|s2 rest2].
      * eapply (IH2 k s true); [exact Hs|exact Hc|exact Hcr|exact Hlast|exact H].
      * eapply (IH2 k s false); [exact Hs|exact Hc|exact Hcr| |exact H].
        intros c B' Hc' _ HB'. eapply comb_term; [exact Hc'| |exact HB'].
        intros c2 B2 Hc2 Hcr2 H2. eapply (IH1 k (s2 :: rest2)); eauto.
  - (* rw_stmt *)
    intros k s isLast cur kk B Hs Hc Hcr Hk H. pose proof (supp_WT k s Hs) as Hws.
    destruct k as [|k]; [discriminate|]. rewrite supp_S in Hs. rewrite rw_stmt_S in H. pose proof Hc as [Hl [Hw [Hrm [Hret [Hnd Hchk]]]]].
    destruct s as [a|v|b|ini cnd th el|ini tag cases|ini cnd post b| | | | |e]; try discriminate.
    + eapply Hpushk; eauto.
    + (* yield *)
      assert (Hfol : forall fol, termB fol -> bkind fol = KDelay -> WTX (XBind v (TLit (bstmts fol)))).
      { intros fol [Hwf [Hd _]] Ek. constructor. constructor; [exact Hwf|apply Hd; exact Ek]. }
      destruct isLast.
      * destruct (bind_ok _ _ H) as [fol [Hf H']].
        eapply pushReturn_termB; [exact Hw| |exact H']. apply Hfol; [eapply gln_termB; [apply tinv_mk|exact Hf]|rewrite (gln_bkind _ _ Hf); reflexivity].
      * destruct (bind_ok _ _ H) as [fol [Hf H']]. destruct (Hk (mkBlock KDelay) fol (tinv_mk KDelay) ltac:(discriminate) Hf) as [Htf Ebf].
        eapply pushReturn_termB; [exact Hw| |exact H']. apply Hfol; [exact Htf|exact Ebf].
    + (* block *)
      destruct (bind_ok _ _ H) as [fol [Hf H']].
      destruct (IH1 k b (mkBlock KDelay) fol Hs (tinv_mk KDelay) eq_refl Hf) as [[Hwf [Hd _]] Ebf].
      destruct (mustNoYield fol); [eapply Hpushk; eauto|].
      destruct (bind_ok _ _ H') as [c [Hp Hkc]].
      assert (He : WTX (XDelay (TLit (bstmts fol)))) by (constructor; constructor; [exact Hwf|apply Hd; exact Ebf]).
      destruct (pushReturn_tinv cur _ KYield c Hc Hcr He Hp) as [Hc' [_ [Eb Hn]]].
      destruct (Hk c B Hc' (fun _ => Hn) Hkc) as [H1 H2]. split; [exact H1|congruence].
    + (* if *)
      destruct (bind_ok _ _ H) as [c [Hc' H']].
      destruct (IH3 (S k) (SIf ini cnd th el) cur c) as [Hci Ebi]; auto; try (rewrite supp_S; exact Hs).
      destruct isLast.
      * split; [eapply gln_termB; eauto|rewrite (gln_bkind _ _ H'); exact Ebi].
      * destruct (Hk c B Hci ltac:(discriminate) H') as [H1 H2]. split; [exact H1|congruence].
    + (* switch *)
      eapply (IH5 (S k)); [rewrite supp_S; exact Hs|exact Hc|exact Hcr| |exact H].
      intros c0 B0 Hc0 Hl0 H0. destruct isLast.
      * destruct Hl0 as [El|[El|El]]; rewrite El in H0.
        -- split; [eapply gln_termB; eauto|apply (gln_bkind _ _ H0)].
        -- eapply Hk; [exact Hc0|intros _; apply nolast_triv; exact El|exact H0].
        -- eapply Hk; [exact Hc0|intros _; unfold nolastIf; rewrite El; exact I|exact H0].
      * assert (H0' : kk c0 = OK B0) by (destruct (lastKind c0) as [[]|]; exact H0).
        eapply Hk; [exact Hc0|discriminate|exact H0'].
    + (* for *)
      eapply (IH4 (S k)); [rewrite supp_S; exact Hs|exact Hc|exact Hcr|exact Hk|exact H].
    + destruct (push_tinv cur SBreak KTrivial B Hc Hcr Hws eq_refl ltac:(discriminate) H) as [[_ [HwB _]] [_ Eb]].
      split; [|exact Eb]. split; [exact HwB|]. rewrite (push_stmts _ _ _ H). split; [|split]; intros; exists SBreak; (split; [apply last_app_some|right; left; reflexivity]).
    + destruct (push_tinv cur SContinue KTrivial B Hc Hcr Hws eq_refl ltac:(discriminate) H) as [[_ [HwB _]] [_ Eb]].
      split; [|exact Eb]. split; [exact HwB|]. rewrite (push_stmts _ _ _ H). split; [|split]; intros; exists SContinue; (split; [apply last_app_some|right; right; left; reflexivity]).
    + destruct (push_tinv cur SFallthrough KTrivial B Hc Hcr Hws eq_refl ltac:(discriminate) H) as [[_ [HwB _]] [_ Eb]].
      split; [|exact Eb]. split; [exact HwB|]. rewrite (push_stmts _ _ _ H). split; [|split]; intros; exists SFallthrough; (split; [apply last_app_some|right; right; right; reflexivity]).
    + eapply Hpushk; eauto.
  - (* rw_if *)
    intros k s cur c' Hs Hif Hc Hcr H. pose proof (supp_WT k s Hs) as Hws. destruct k as [|k]; [discriminate|]. rewrite supp_S in Hs.
    destruct s as [a|v|b|init c th el|ini tag cases|ini cnd post b| | | | |e]; try discriminate. rewrite rw_if_S in H.
    apply andb_prop in Hs. destruct Hs as [Hs He]. apply andb_prop in Hs. destruct Hs as [Hi Ht].
    rewrite (init_ok_hasYo _ Hi) in H. destruct (bind_ok _ _ H) as [body [Hb H']].
    destruct (IH1 k th (mkBlock KIf) body Ht (tinv_mk KIf) eq_refl Hb) as [[Hwb _] _].
    assert (Hpush : forall s0 kd, WT s0 -> is_ret_kind kd = false -> kd <> KDelay -> push cur s0 kd = OK c' -> tinv c' /\ bkind c' = bkind cur).
    { intros s0 kd Hs0 Hkd Hnd Hp. destruct (push_tinv cur s0 kd c' Hc Hcr Hs0 Hkd Hnd Hp) as [H1 [_ H2]]. auto. }
    destruct el as [|eb|alt].
    + destruct (mustNoYield body); eapply Hpush; try exact H'; try reflexivity; try discriminate; [exact Hws|constructor; [exact Hwb|constructor]].
    + destruct (bind_ok _ _ H') as [els [Hels H'']].
      destruct (IH1 k eb (mkBlock KIf) els He (tinv_mk KIf) eq_refl Hels) as [[Hwe _] _].
      destruct (mustNoYield body && mustNoYield els); eapply Hpush; try exact H''; try reflexivity; try discriminate; [exact Hws|constructor; [exact Hwb|apply unwrapIf_WTE; exact Hwe]].
    + destruct (bind_ok _ _ H') as [els [Hels H'']]. apply andb_prop in He. destruct He as [Hisif Halt].
      destruct (IH3 k alt (mkBlock KIf) els Halt Hisif (tinv_mk KIf) eq_refl Hels) as [[_ [Hwe _]] _].
      destruct (mustNoYield body && mustNoYield els); eapply Hpush; try exact H''; try reflexivity; try discriminate; [exact Hws|constructor; [exact Hwb|apply unwrapIf_WTE; exact Hwe]].
  - (* rw_for *)
    intros k init c post b cur kk B strict Hs Hc Hcr Hk H. pose proof (supp_WT k _ Hs) as Hws. destruct k as [|k]; [discriminate|]. rewrite supp_S in Hs.
    apply andb_prop in Hs. destruct Hs as [Hs Hb]. apply andb_prop in Hs. destruct Hs as [Hi Hp].
    rewrite rw_for_S in H. destruct (bind_ok _ _ H) as [body [Hbody H']]. clear H. cbv zeta in H'.
    destruct (IH1 k b (mkBlock KFor) body Hb (tinv_mk KFor) eq_refl Hbody) as [[Hwb [_ [Hfor Hthird]]] Ebb]. cbn [mkBlock bkind] in Ebb.
    assert (Hws0 : WT (SFor None c post b)) by (inversion Hws; subst; constructor; assumption).
    (* continuations built from kk *)
    assert (Hkpush : forall s0, WT s0 -> forall c3 B3, tinv c3 -> combineRequired c3 = false ->
              (c4 <- push c3 s0 KTrivial ;; kk c4) = OK B3 -> termB B3 /\ bkind B3 = bkind c3).
    { intros s0 Hs0 c3 B3 Hc3 Hcr3 H3. exact (Hpushk c3 s0 kk strict B3 Hc3 Hcr3 Hs0 Hk H3). }
    assert (Hkret : forall e, WTX e -> forall c3 B3, tinv c3 -> combineRequired c3 = false ->
              (c4 <- pushReturn c3 e KFor ;; kk c4) = OK B3 -> termB B3 /\ bkind B3 = bkind c3).
    { intros e He c3 B3 Hc3 Hcr3 H3. destruct (bind_ok _ _ H3) as [c4 [Hp4 Hk4]].
      destruct (pushReturn_tinv c3 e KFor c4 Hc3 Hcr3 He Hp4) as [Hc4 [_ [Eb Hn]]].
      destruct (Hk c4 B3 Hc4 (fun _ => Hn) Hk4) as [H1 H2]. split; [exact H1|congruence]. }
    destruct (negb (hasYo init) && negb (hasYo post) && mustNoYield body) eqn:Etr; [exact (Hpushk cur _ kk strict B Hc Hcr Hws Hk H')|].
    eapply (Hinit k init cur _ B Hi Hc Hcr); [|exact H'].
    intros c2 B2 Hc2 _ H2.
    destruct (mustNoYield body && negb (hasYo post)) eqn:E1; [eapply comb_term; [exact Hc2|apply (Hkpush _ Hws0)|exact H2]|].
    destruct (negb (hasYo post)) eqn:E2.
    + (* the body is the callback *)
      assert (Hm : mustNoYield body = false) by (destruct (mustNoYield body); [discriminate|reflexivity]).
      eapply comb_term; [exact Hc2| |exact H2]. apply Hkret. constructor. constructor. constructor; [exact Hwb|apply Hfor; [exact Ebb|exact Hm]].
    + (* the post statement yields *)
      unfold post_okb in Hp. destruct post as [[a|v|? |? ? ? ?|? ? ?|? ? ? ?| | | | |?]|]; try discriminate.
      destruct (bind_ok _ _ H2) as [body' [HE H3]].
      assert (Hb' : Forall WT (bstmts body') /\ lastT (bstmts body')).
      { destruct f as [|f']; [destruct (combineRequired body); discriminate|].
        destruct (combineRequired body) eqn:Ecr.
        - destruct (bind_ok _ _ HE) as [pb [Hpb HE2]]. rewrite rw_stmt_S in Hpb.
          destruct (bind_ok _ _ Hpb) as [fol [Hf Hpb']].
          destruct (gln_lastT (mkBlock KDelay) fol (tinv_mk KDelay) ltac:(discriminate) Hf) as [Hlf Hwf].
          assert (Epb : bstmts pb = [SRet (XBind v (TLit (bstmts fol)))]) by (rewrite (pushReturn_stmts _ _ _ Hpb'); reflexivity).
          destruct (lastStmt pb) as [[]|]; try discriminate.
          destruct (bind_ok _ _ HE2) as [b1 [Hb1 HE3]]. rewrite (pushReturn_stmts _ _ _ HE3). cbn [mkBlock bstmts app].
          assert (Hb1' : lastT (bstmts b1) /\ Forall WT (bstmts b1)).
          { destruct (gln_cases _ Hb1) as [->|Hb2].
            - split; [apply Hthird; [rewrite Ebb; discriminate|first [exact Ecr|reflexivity]]|exact Hwb].
            - rewrite (pushReturn_stmts _ _ _ Hb2). cbn [markCombined bstmts]. split; [apply lastT_snoc_ret|].
              apply Forall_app. split; [exact Hwb|constructor; [constructor; constructor|constructor]]. }
          destruct Hb1' as [Hl1 Hw1].
          split; [|apply (lastT_snoc_ret [])].
          constructor; [|constructor]. constructor. constructor; constructor; constructor; auto.
          rewrite Epb. constructor; [|constructor]. constructor. constructor. constructor; assumption.
          rewrite Epb. apply (lastT_snoc_ret []).
        - rewrite rw_stmt_S in HE. destruct (bind_ok _ _ HE) as [fol [Hf HE2]].
          destruct (gln_lastT (mkBlock KDelay) fol (tinv_mk KDelay) ltac:(discriminate) Hf) as [Hlf Hwf].
          rewrite (pushReturn_stmts _ _ _ HE2). cbn [markCombined bstmts]. split; [|apply lastT_snoc_ret].
          apply Forall_app. split; [exact Hwb|]. constructor; [|constructor]. constructor. constructor. constructor; assumption. }
      destruct Hb' as [Hwb' Hlb'].
      eapply comb_term; [exact Hc2| |exact H3]. apply Hkret. constructor. constructor. constructor; assumption.
  - (* rw_switch *)
    intros k init tag cases cur kk B Hs Hc Hcr Hk H. pose proof (supp_WT k _ Hs) as Hws. destruct k as [|k]; [discriminate|]. rewrite supp_S in Hs.
    apply andb_prop in Hs. destruct Hs as [Hi Hcs].
    rewrite rw_switch_S in H. destruct (bind_ok _ _ H) as [[cases' allTrivial] [Hrc H']]. clear H.
    assert (Hws0 : WT (SSwitch None tag cases)) by (inversion Hws; subst; constructor; assumption).
    assert (Hwc : Forall (fun lb => Forall WT (snd lb)) cases').
    { clear - Hcs Hrc IH1. revert cases' allTrivial Hrc. induction cases as [|[lab b] r IHr]; intros cases' allTrivial Hrc.
      - cbn in Hrc. inversion Hrc; subst. constructor.
      - cbn [rw_cases] in Hrc. fold (rw_cases f) in Hrc. cbn [forallb snd] in Hcs. apply andb_prop in Hcs. destruct Hcs as [Hb Hr].
        apply clause_ok_inv in Hb. destruct Hb as [Hb1 _].
        destruct (bind_ok _ _ Hrc) as [cb [Hcb Hrc']]. destruct (bind_ok _ _ Hrc') as [[r' tr] [Hr' Hrc'']].
        inversion Hrc''; subst. constructor; [|eapply IHr; eauto]. cbn [snd].
        destruct (IH1 k b (mkBlock KSwitch) cb Hb1 (tinv_mk KSwitch) eq_refl Hcb) as [[Hw _] _]. exact Hw. }
    assert (TKa : TK (fun c2 => if allTrivial then c3 <- push c2 (SSwitch None tag cases) KTrivial ;; kk c3
                                 else comb c2 (fun c3 => c4 <- push c3 (SSwitch None tag cases') KSwitch ;; kk c4)) false).
    { intros c2 B2 Hc2 _ H2. destruct allTrivial.
      - (* only reached on a fresh or trivially ended block *)
        destruct (bind_ok _ _ H2) as [c3 [Hp3 Hk3]].
        assert (Hcr2 : combineRequired c2 = false).
        { destruct (combineRequired c2) eqn:E2; [|reflexivity]. destruct Hc2 as [_ [_ [_ [_ [_ Hchk2]]]]].
          unfold push in Hp3. rewrite (Hchk2 E2) in Hp3. discriminate. }
        destruct (push_tinv c2 _ KTrivial c3 Hc2 Hcr2 Hws0 eq_refl ltac:(discriminate) Hp3) as [Hc3 [El Eb]].
        destruct (Hk c3 B2 Hc3 (or_intror (or_introl El)) Hk3) as [H1 H2']. split; [exact H1|congruence].
      - eapply comb_term; [exact Hc2| |exact H2]. intros c3 B3 Hc3 Hcr3 H3. destruct (bind_ok _ _ H3) as [c4 [Hp4 Hk4]].
        destruct (push_tinv c3 (SSwitch None tag cases') KSwitch c4 Hc3 Hcr3 ltac:(constructor; exact Hwc) eq_refl ltac:(discriminate) Hp4) as [Hc4 [El Eb]].
        destruct (Hk c4 B3 Hc4 (or_introl El) Hk4) as [H1 H2']. split; [exact H1|congruence]. }
    destruct (negb (hasYo init) && allTrivial) eqn:Etr.
    + destruct (bind_ok _ _ H') as [c1 [Hp1 Hk1]].
      destruct (push_tinv cur _ KTrivial c1 Hc Hcr Hws eq_refl ltac:(discriminate) Hp1) as [Hc1 [El Eb]].
      destruct (Hk c1 B Hc1 (or_intror (or_introl El)) Hk1) as [H1 H2]. split; [exact H1|congruence].
    + eapply (Hinit k init cur _ B Hi Hc Hcr TKa). exact H'.
Qed.

(* the callback handed to Start(Delay(...)) before pass3, and every function literal in it *)
Theorem pass2_terminates f k ss B :
  supps k ss = true -> rw_stmts f ss (mkBlock KDelay) = OK B -> lastT (bstmts B) /\ Forall WT (bstmts B).
Proof.
  intros Hs H. destruct (proj1 (rw_term f) k ss (mkBlock KDelay) B Hs (tinv_mk KDelay) eq_refl H) as [[Hw [Hd _]] Eb].
  split; [apply Hd; exact Eb|exact Hw].
Qed.
End L.
