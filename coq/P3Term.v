(* P3Term.v — pass3 of the rewriter model keeps every generated function literal terminating.

   Legal.v shows that after pass2 every function literal body ends in a statement that the
   transcribed termination checker accepts, or in a break / continue at the top level of the literal.
   pass3 replaces exactly those by `return seq.Break() / seq.Continue()`, leaves the native breaks of
   loops and switches alone (so the "no break inside" side of the checker is unaffected), and only
   removes a trailing `return seq.Normal()` when what precedes it is terminating.  Hence in the FINAL
   output of the rewriter every function literal body — at any depth — is terminating in the sense of
   the checker (is_term TFUEL): Go's "missing return" cannot be reported for generated code.  *)
From Coq Require Import List Arith Bool Lia.
From Verif Require Import Base Syntax Rewrite Side P3Rel TermSound Accept Legal.
Import ListNotations.

Lemma has_break_S k s :
  has_break (S k) s =
    match s with
    | SBreak => true
    | SBlock b => hb_list k b
    | SIf _ _ t e => hb_list k t || match e with ENone => false | EElse b => hb_list k b | EElif x => has_break k x end
    | _ => false
    end.
Proof. reflexivity. Qed.

Lemma hb_list_cons k x r : hb_list k (x :: r) = has_break k x || hb_list k r.
Proof. reflexivity. Qed.

Definition tsw (k : nat) : list (clabel * list stmt) -> bool -> bool :=
  fix go (l : list (clabel * list stmt)) (hasDefault : bool) : bool :=
    match l with
    | [] => hasDefault
    | (lab, b) :: r =>
        if negb (tlist k b) || hb_list k b then false
        else go r (hasDefault || match lab with LDefault => true | _ => false end)
    end.
Lemma term_switch_tsw k cs : term_switch k cs = tsw k cs false.
Proof. reflexivity. Qed.
Lemma tsw_cons k lab b r hd :
  tsw k ((lab, b) :: r) hd =
    if negb (tlist k b) || hb_list k b then false else tsw k r (hd || match lab with LDefault => true | _ => false end).
Proof. reflexivity. Qed.
Lemma is_term_for k i p b : is_term (S k) (SFor i None p b) = negb (hb_list k b).
Proof. reflexivity. Qed.

(* ---------- the checker does not depend on its fuel once the fuel covers the nesting depth ---------- *)
Lemma hb_stable j : forall s k, fitsb j s = true -> j <= k -> has_break k s = has_break j s.
Proof.
  induction j as [|j IH]; intros s k Hf Hle; [discriminate|].
  destruct k as [|k]; [lia|]. assert (Hle' : j <= k) by lia.
  assert (HL : forall l, forallb (fitsb j) l = true -> hb_list k l = hb_list j l).
  { induction l as [|x r IHl]; intros Hl; [reflexivity|]. cbn [forallb] in Hl. apply andb_prop in Hl. destruct Hl as [Hx Hr].
    rewrite !hb_list_cons, (IH x k Hx Hle'), (IHl Hr). reflexivity. }
  rewrite fitsb_S in Hf. rewrite !has_break_S.
  destruct s as [a|v|b|i c t e|i tag cs|i c p b| | | | |e]; try reflexivity.
  - apply HL. exact Hf.
  - apply andb_prop in Hf. destruct Hf as [Hf He]. apply andb_prop in Hf. destruct Hf as [_ Ht].
    rewrite (HL t Ht). destruct e as [|eb|x]; [reflexivity|rewrite (HL eb He); reflexivity|rewrite (IH x k He Hle'); reflexivity].
Qed.

Lemma hb_list_stable j k l : forallb (fitsb j) l = true -> j <= k -> hb_list k l = hb_list j l.
Proof.
  intros Hl Hle. induction l as [|x r IHl]; [reflexivity|]. cbn [forallb] in Hl. apply andb_prop in Hl. destruct Hl as [Hx Hr].
  rewrite !hb_list_cons, (hb_stable j x k Hx Hle), (IHl Hr). reflexivity.
Qed.

Lemma forallb_last {A} (f : A -> bool) l x : forallb f l = true -> last (map Some l) None = Some x -> f x = true.
Proof.
  intros Hl E. apply last_map_some in E. rewrite E in Hl. rewrite forallb_app in Hl. apply andb_prop in Hl.
  destruct Hl as [_ Hx]. cbn in Hx. rewrite andb_true_r in Hx. exact Hx.
Qed.

Lemma term_stable j : forall s k, fitsb j s = true -> j <= k -> is_term k s = is_term j s.
Proof.
  induction j as [|j IH]; intros s k Hf Hle; [discriminate|].
  destruct k as [|k]; [lia|]. assert (Hle' : j <= k) by lia.
  assert (HT : forall l, forallb (fitsb j) l = true -> tlist k l = tlist j l).
  { intros l Hl. unfold tlist. destruct (last (map Some l) None) as [x|] eqn:E; [|reflexivity].
    apply IH; [exact (forallb_last _ l x Hl E)|exact Hle']. }
  rewrite fitsb_S in Hf. rewrite !is_term_S.
  destruct s as [a|v|b|i c t e|i tag cs|i c p b| | | | |e]; try reflexivity.
  - apply HT. exact Hf.
  - apply andb_prop in Hf. destruct Hf as [Hf He]. apply andb_prop in Hf. destruct Hf as [_ Ht].
    destruct e as [|eb|x]; [reflexivity|rewrite (HT t Ht), (HT eb He); reflexivity|rewrite (HT t Ht), (IH x k He Hle'); reflexivity].
  - apply andb_prop in Hf. destruct Hf as [_ Hcs]. rewrite !term_switch_tsw. generalize false.
    induction cs as [|[lab b] r IHc]; intros hd; [reflexivity|].
    cbn [forallb snd] in Hcs. apply andb_prop in Hcs. destruct Hcs as [Hb Hr].
    rewrite !tsw_cons, (HT b Hb), (hb_list_stable j k b Hb Hle').
    destruct (negb (tlist j b) || hb_list j b); [reflexivity|apply IHc; exact Hr].
  - apply andb_prop in Hf. destruct Hf as [_ Hb]. destruct c; [reflexivity|].
    change (negb (hb_list k b) = negb (hb_list j b)).
    rewrite (hb_list_stable j k b Hb Hle'). reflexivity.
Qed.

(* ---------- pass3 adds no break and keeps terminating statements terminating ---------- *)
Lemma p3_list_cons n il isw x r :
  p3_list n il isw (x :: r) = (fst (p3 n il isw x) :: fst (p3_list n il isw r), snd (p3 n il isw x) || snd (p3_list n il isw r)).
Proof.
  cbn [p3_list]. fold (p3_list n il isw). destruct (p3 n il isw x) as [x' a]. destruct (p3_list n il isw r) as [r' b]. reflexivity.
Qed.

Lemma last_p3_list n il isw l :
  last (map Some (fst (p3_list n il isw l))) None = option_map (fun x => fst (p3 n il isw x)) (last (map Some l) None).
Proof.
  induction l as [|x r IH]; [reflexivity|]. rewrite p3_list_cons. cbn [fst map].
  destruct r as [|y r']; [reflexivity|].
  rewrite p3_list_cons in IH |- *. cbn [fst map] in IH |- *. exact IH.
Qed.

Lemma p3_hb n : forall k il isw s, has_break k (fst (p3 n il isw s)) = true -> has_break k s = true.
Proof.
  induction n as [|n IH]; intros k il isw s H; [exact H|].
  destruct k as [|k]; [discriminate|].
  assert (HL : forall il isw l, hb_list k (fst (p3_list n il isw l)) = true -> hb_list k l = true).
  { intros il0 isw0 l. induction l as [|x r IHl]; intros Hl; [exact Hl|].
    rewrite p3_list_cons in Hl. cbn [fst] in Hl. rewrite hb_list_cons in *. apply orb_prop in Hl.
    destruct Hl as [Hx|Hr]; [rewrite (IH k il0 isw0 x Hx); reflexivity|rewrite (IHl Hr); apply orb_true_r]. }
  rewrite p3_S in H.
  destruct s as [a|v|b|i c t e|i tag cs|i c p b| | | | |e]; try exact H.
  - pose proof (HL il isw b) as Hb. destruct (p3_list n il isw b) as [b' a]. cbn [fst] in *. rewrite has_break_S in *. auto.
  - destruct (p3_opt n il isw i) as [i' a0]. pose proof (HL il isw t) as Ht. destruct (p3_list n il isw t) as [t' a1].
    destruct e as [|eb|x].
    + cbn [fst] in *. rewrite has_break_S in *. rewrite orb_false_r in *. auto.
    + pose proof (HL il isw eb) as He. destruct (p3_list n il isw eb) as [e' a2]. cbn [fst] in *. rewrite has_break_S in *.
      apply orb_prop in H. destruct H as [H|H]; [rewrite (Ht H); reflexivity|rewrite (He H); apply orb_true_r].
    + pose proof (IH k il isw x) as He. destruct (p3 n il isw x) as [x' a2]. cbn [fst] in *. rewrite has_break_S in *.
      apply orb_prop in H. destruct H as [H|H]; [rewrite (Ht H); reflexivity|rewrite (He H); apply orb_true_r].
  - destruct (p3_opt n il true i) as [i' a0]. destruct (p3_clauses n il cs) as [cs' a1]. cbn [fst] in H. discriminate.
  - destruct (p3_opt n true isw i) as [i' a0]. destruct (p3_opt n true isw p) as [p' a1]. destruct (p3_list n true isw b) as [b' a2].
    cbn [fst] in H. discriminate.
  - destruct (il || isw); cbn [fst] in H; [exact H|discriminate].
  - destruct il; cbn [fst] in H; exact H.
Qed.

Lemma p3_hb_list n k il isw l : hb_list k l = false -> hb_list k (fst (p3_list n il isw l)) = false.
Proof.
  intros H. destruct (hb_list k (fst (p3_list n il isw l))) eqn:E; [|reflexivity].
  assert (Hl : hb_list k l = true).
  { clear H. revert E. induction l as [|x r IHl]; intros E; [exact E|].
    rewrite p3_list_cons in E. cbn [fst] in E. rewrite hb_list_cons in *. apply orb_prop in E.
    destruct E as [Hx|Hr]; [rewrite (p3_hb n k il isw x Hx); reflexivity|rewrite (IHl Hr); apply orb_true_r]. }
  congruence.
Qed.

Lemma p3_term n : forall k il isw s, is_term k s = true -> is_term k (fst (p3 n il isw s)) = true.
Proof.
  induction n as [|n IH]; intros k il isw s H; [exact H|].
  destruct k as [|k]; [discriminate|].
  assert (HT : forall il isw l, tlist k l = true -> tlist k (fst (p3_list n il isw l)) = true).
  { intros il0 isw0 l Hl. unfold tlist in *. rewrite last_p3_list.
    destruct (last (map Some l) None) as [x|]; [|discriminate]. cbn [option_map]. apply IH. exact Hl. }
  rewrite p3_S. rewrite is_term_S in H.
  destruct s as [a|v|b|i c t e|i tag cs|i c p b| | | | |e]; try discriminate; try reflexivity.
  - pose proof (HT il isw b H) as Hb. destruct (p3_list n il isw b) as [b' a]. cbn [fst] in *. rewrite is_term_S. exact Hb.
  - destruct (p3_opt n il isw i) as [i' a0]. destruct e as [|eb|x]; [discriminate| |].
    + apply andb_prop in H. destruct H as [H1 H2]. pose proof (HT il isw t H1) as Ht. pose proof (HT il isw eb H2) as He.
      destruct (p3_list n il isw t) as [t' a1]. destruct (p3_list n il isw eb) as [e' a2]. cbn [fst] in *.
      rewrite is_term_S, Ht, He. reflexivity.
    + apply andb_prop in H. destruct H as [H1 H2]. pose proof (HT il isw t H1) as Ht. pose proof (IH k il isw x H2) as He.
      destruct (p3_list n il isw t) as [t' a1]. destruct (p3 n il isw x) as [x' a2]. cbn [fst] in *.
      rewrite is_term_S, Ht, He. reflexivity.
  - destruct (p3_opt n il true i) as [i' a0].
    assert (HC : term_switch k (fst (p3_clauses n il cs)) = true).
    { revert H. rewrite !term_switch_tsw. generalize false. induction cs as [|[lab b] r IHc]; intros hd H; [exact H|].
      cbn [p3_clauses]. fold (p3_clauses n il).
      pose proof (HT il true b) as Hb. pose proof (p3_hb_list n k il true b) as Hh.
      destruct (p3_list n il true b) as [b' a]. specialize (IHc (hd || match lab with LDefault => true | _ => false end)).
      destruct (p3_clauses n il r) as [r' a']. cbn [fst] in *. rewrite tsw_cons in *.
      destruct (tlist k b) eqn:Et; [|discriminate]. destruct (hb_list k b) eqn:Eh; [discriminate|]. cbn [negb orb] in H.
      rewrite (Hb eq_refl), (Hh eq_refl). cbn [negb orb]. apply IHc. exact H. }
    destruct (p3_clauses n il cs) as [cs' a1]. cbn [fst] in *. rewrite is_term_S. exact HC.
  - destruct (p3_opt n true isw i) as [i' a0]. destruct (p3_opt n true isw p) as [p' a1].
    pose proof (p3_hb_list n k true isw b) as Hh. destruct (p3_list n true isw b) as [b' a2]. cbn [fst] in *.
    destruct c; [discriminate|]. rewrite is_term_for. change (negb (hb_list k b) = true) in H.
    apply negb_true_iff in H. rewrite (Hh H). reflexivity.
Qed.

(* ---------- every function literal of the output is terminating ---------- *)
Definition tlx (bl : list stmt -> bool) : sexp -> bool :=
  fix tx (e : sexp) : bool :=
    match e with
    | XBind _ (TLit l) | XDelay (TLit l) => bl l
    | XCombine a b => tx a && tx b
    | XFor _ _ body => tx body
    | _ => true
    end.

Fixpoint tlit (k : nat) (s : stmt) {struct k} : bool :=
  match k with 0 => false | S k =>
    match s with
    | SBlock b => forallb (tlit k) b
    | SIf _ _ t e => forallb (tlit k) t &&
                     match e with ENone => true | EElse b => forallb (tlit k) b | EElif x => tlit k x end
    | SSwitch _ _ cs => forallb (fun lb => forallb (tlit k) (snd lb)) cs
    | SFor _ _ _ b => forallb (tlit k) b
    | SRet e => tlx (fun l => forallb (tlit k) l && is_term TFUEL (SBlock l)) e
    | _ => true
    end
  end.

Lemma tlit_S k s :
  tlit (S k) s =
    match s with
    | SBlock b => forallb (tlit k) b
    | SIf _ _ t e => forallb (tlit k) t &&
                     match e with ENone => true | EElse b => forallb (tlit k) b | EElif x => tlit k x end
    | SSwitch _ _ cs => forallb (fun lb => forallb (tlit k) (snd lb)) cs
    | SFor _ _ _ b => forallb (tlit k) b
    | SRet e => tlx (fun l => forallb (tlit k) l && is_term TFUEL (SBlock l)) e
    | _ => true
    end.
Proof. reflexivity. Qed.

Section PT.
  Variable sf : bool.
  Notation WT := (Legal.WT sf).
  Notation WTX := (Legal.WTX sf).

Lemma WT_last l x : Forall WT l -> last (map Some l) None = Some x -> WT x.
Proof.
  intros Hl E. apply last_map_some in E. rewrite E in Hl. apply Forall_app in Hl. destruct Hl as [_ Hx]. inversion Hx; assumption.
Qed.

(* the last statement of a function literal body after pass3 (before rmRedundantReturn), for any checker fuel T *)
Lemma fbody_last_term T T' n k l x :
  T = S T' -> k <= T' -> 1 <= n ->
  last (map Some l) None = Some x -> fitsb k x = true ->
  (is_term T x = true \/ x = SBreak \/ x = SContinue \/ x = SFallthrough) ->
  is_term T (SBlock (fst (p3_list n false false l))) = true.
Proof.
  intros -> Hk Hn Ex Hfx Tx. rewrite is_term_S. fold (tlist T' (fst (p3_list n false false l))). unfold tlist.
  rewrite last_p3_list, Ex. cbn [option_map].
  destruct Tx as [Tx | [ -> | [ -> | -> ] ] ].
  - apply p3_term. rewrite (term_stable k x T' Hfx Hk). rewrite <- (term_stable k x (S T') Hfx) by lia. exact Tx.
  - destruct n as [|n']; [lia|]. rewrite p3_S. destruct T'; [destruct k; [discriminate Hfx|lia]|reflexivity].
  - destruct n as [|n']; [lia|]. rewrite p3_S. destruct T'; [destruct k; [discriminate Hfx|lia]|reflexivity].
  - destruct n as [|n']; [lia|]. rewrite p3_S. destruct T'; [destruct k; [discriminate Hfx|lia]|reflexivity].
Qed.

Lemma TFUEL_S : TFUEL = S 199.
Proof. reflexivity. Qed.

(* (the kernel must never be asked to compare [isTerminating s] with [is_term TFUEL s] inside a bigger
   conversion problem: go through this equation) *)
Lemma isTerminating_unfold s : isTerminating s = is_term TFUEL s.
Proof. unfold isTerminating. reflexivity. Qed.

Definition TLs (n k : nat) : Prop :=
  forall il isw l, forallb (fitsb k) l = true -> Forall WT l -> forallb (tlit k) (fst (p3_list n il isw l)) = true.
Definition TLf (n k : nat) : Prop :=
  forall l, forallb (fitsb k) l = true -> Forall WT l -> lastT l ->
    forallb (tlit k) (p3_fbody n l) && is_term TFUEL (SBlock (p3_fbody n l)) = true.
Definition TLx (n k : nat) : Prop :=
  forall m' m e, m' <= m -> fits_x k m' e = true -> WTX e ->
    tlx (fun l => forallb (tlit k) l && is_term TFUEL (SBlock l)) (p3_px n m e) = true.

Lemma tl_list n k :
  (forall il isw s, fitsb k s = true -> WT s -> tlit k (fst (p3 n il isw s)) = true) -> TLs n k.
Proof.
  intros IH il0 isw0 l. induction l as [|x r IHl]; intros Hl Hwl; [reflexivity|].
  cbn [forallb] in Hl. apply andb_prop in Hl. destruct Hl as [Hx Hr]. inversion Hwl as [|? ? Hwx Hwr]; subst.
  rewrite p3_list_cons. cbn [fst forallb]. rewrite (IH il0 isw0 x Hx Hwx), (IHl Hr Hwr). reflexivity.
Qed.

Lemma tl_fbody T' n k : TFUEL = S T' -> k <= T' -> 1 <= n -> TLs n k -> TLf n k.
Proof.
  intros HT Hkt Hn HL l Hl Hwl [x [Ex Tx]]. unfold termS in Tx. rewrite isTerminating_unfold in Tx.
  pose proof (HL false false l Hl Hwl) as Fl. unfold p3_fbody.
  assert (Hfx : fitsb k x = true) by exact (forallb_last _ l x Hl Ex).
  assert (Ht : is_term TFUEL (SBlock (fst (p3_list n false false l))) = true).
  { apply (fbody_last_term TFUEL T' n k l x HT); [exact Hkt|exact Hn|exact Ex|exact Hfx|exact Tx]. }
  destruct (p3_list n false false l) as [l' rep]. cbn [fst] in Fl, Ht. destruct rep; [|rewrite Fl, Ht; reflexivity].
  destruct (rm_redundant_spec l') as [->|[pre [E [-> Tp]]]]; [rewrite Fl, Ht; reflexivity|].
  subst l'. rewrite forallb_app in Fl. apply andb_prop in Fl. destruct Fl as [Fl _]. rewrite Fl, Tp. reflexivity.
Qed.

Lemma tl_px n k : TLf n k -> TLx n k.
Proof.
  intros HF. unfold TLx. induction m' as [|m' IHm]; intros m e Hle He Hwe; [discriminate|].
  rewrite fits_x_S in He. destruct m as [|m]; [lia|]. assert (Hle' : m' <= m) by lia.
  rewrite p3_px_S. destruct e as [v t|t|e1 e2|c post e| | | |]; try reflexivity.
  + inversion Hwe as [? ? Hwt| | | | | | |]; subst. destruct t as [l|x]; cbn [p3_th tlx]; [|reflexivity].
    inversion Hwt; subst. apply HF; assumption.
  + inversion Hwe as [|? Hwt| | | | | |]; subst. destruct t as [l|x]; cbn [p3_th tlx]; [|reflexivity].
    inversion Hwt; subst. apply HF; assumption.
  + inversion Hwe as [| |? ? Hwa Hwb| | | | |]; subst. apply andb_prop in He. destruct He as [He1 He2]. cbn [tlx].
    rewrite (IHm m e1 Hle' He1 Hwa), (IHm m e2 Hle' He2 Hwb). reflexivity.
  + inversion Hwe as [| | |? ? ? Hwb| | | |]; subst. apply andb_prop in He. destruct He as [He1 He2]. cbn [tlx]. exact (IHm m e Hle' He2 Hwb).
Qed.

Lemma tl_clauses n k il cases : TLs n k ->
  forallb (fun lb => forallb (fitsb k) (snd lb)) cases = true -> Forall (fun lb => Forall WT (snd lb)) cases ->
  forallb (fun lb => forallb (tlit k) (snd lb)) (fst (p3_clauses n il cases)) = true.
Proof.
  intros HL Hc Hwc. induction cases as [|[lab b] r IHc]; [reflexivity|].
  cbn [forallb snd] in Hc. apply andb_prop in Hc. destruct Hc as [Hb Hr]. inversion Hwc as [|? ? Hwb Hwr]; subst. cbn [snd] in Hwb.
  pose proof (HL il true b Hb Hwb) as Fb. pose proof (IHc Hr Hwr) as Fr.
  cbn [p3_clauses]. fold (p3_clauses n il). destruct (p3_list n il true b) as [b' a]. destruct (p3_clauses n il r) as [r' a']. cbn in *. rewrite Fb, Fr. reflexivity.
Qed.

Lemma tl_stmt n k il isw s : TLs n k -> TLx n k ->
  (forall il isw x, fitsb k x = true -> WT x -> tlit k (fst (p3 n il isw x)) = true) ->
  S k <= n -> fitsb (S k) s = true -> WT s -> tlit (S k) (fst (p3 (S n) il isw s)) = true.
Proof.
  intros HL HX IH Hkn Hf Hw.
  rewrite p3_S. rewrite fitsb_S in Hf.
  destruct s as [a|v|body|init c thn el|init tag cases|init c post body| | | | |e]; try reflexivity.
  - inversion Hw; subst. pose proof (HL il isw body Hf) as Hb. destruct (p3_list n il isw body) as [b' a]. cbn [fst] in *. rewrite tlit_S. auto.
  - inversion Hw as [| | |? ? ? ? Hwt Hwe| | | | | | |]; subst.
    apply andb_prop in Hf. destruct Hf as [Hf He]. apply andb_prop in Hf. destruct Hf as [Hi Ht].
    destruct (p3_opt n il isw init) as [i' a0].
    pose proof (HL il isw thn Ht Hwt) as Htl. destruct (p3_list n il isw thn) as [t' a1]. cbn [fst] in Htl.
    destruct el as [|eb|x].
    + cbn [fst]. rewrite tlit_S, Htl. reflexivity.
    + inversion Hwe; subst. pose proof (HL il isw eb He) as Hel. destruct (p3_list n il isw eb) as [e' a2]. cbn [fst] in *.
      rewrite tlit_S, Htl, Hel by assumption. reflexivity.
    + inversion Hwe; subst. pose proof (IH il isw x He) as Hel. destruct (p3 n il isw x) as [x' a2]. cbn [fst] in *.
      rewrite tlit_S, Htl, Hel by assumption. reflexivity.
  - inversion Hw as [| | | |? ? ? Hwc| | | | | |]; subst.
    apply andb_prop in Hf. destruct Hf as [Hi Hc].
    destruct (p3_opt n il true init) as [i' a0].
    pose proof (tl_clauses n k il cases HL Hc Hwc) as HC.
    destruct (p3_clauses n il cases) as [cs' a1]. cbn [fst] in *. rewrite tlit_S. exact HC.
  - inversion Hw; subst.
    apply andb_prop in Hf. destruct Hf as [Hf Hb]. apply andb_prop in Hf. destruct Hf as [Hi Hp].
    destruct (p3_opt n true isw init) as [i' a0]. destruct (p3_opt n true isw post) as [p' a1].
    pose proof (HL true isw body Hb) as Hbl. destruct (p3_list n true isw body) as [b' a2]. cbn [fst] in *.
    rewrite tlit_S. auto.
  - destruct (il || isw); reflexivity.
  - destruct il; reflexivity.
  - inversion Hw; subst. cbn [fst]. rewrite tlit_S. apply (HX (S k) n e); [exact Hkn|exact Hf|assumption].
Qed.

Lemma p3_tlit T' (HT : TFUEL = S T') n : forall k il isw s, k < n -> k <= T' -> fitsb k s = true -> WT s -> tlit k (fst (p3 n il isw s)) = true.
Proof.
  induction n as [|n IH]; intros k il isw s Hk Hkt Hf Hw; [lia|].
  destruct k as [|k]; [discriminate|]. assert (Hk' : k < n) by lia. assert (Hkt' : k <= T') by lia.
  assert (IH' : forall il isw x, fitsb k x = true -> WT x -> tlit k (fst (p3 n il isw x)) = true).
  { intros il0 isw0 x Hx Hwx. exact (IH k il0 isw0 x Hk' Hkt' Hx Hwx). }
  assert (HL : TLs n k) by exact (tl_list n k IH').
  assert (Hn1 : 1 <= n) by lia.
  assert (HF : TLf n k) by exact (tl_fbody T' n k HT Hkt' Hn1 HL).
  assert (HX : TLx n k) by exact (tl_px n k HF).
  assert (Hkn : S k <= n) by lia.
  exact (tl_stmt n k il isw s HL HX IH' Hkn Hf Hw).
Qed.

(* pass3 applied to the whole callback body *)
Theorem pass3_terminates k l :
  S (S (S k)) < P3FUEL -> S (S (S k)) <= 199 -> forallb (fitsb k) l = true -> Forall WT l -> lastT l ->
  forallb (tlit (S (S k))) (pass3_body l) = true /\ is_term TFUEL (SBlock (pass3_body l)) = true.
Proof.
  intros Hk Hkt Hl Hw Ht. unfold pass3_body.
  assert (Hf : fitsb (S (S (S k))) (SRet (XDelay (TLit l))) = true).
  { rewrite fitsb_S, fits_x_S. cbn [fits_th]. apply forallb_imp with (f := fitsb k); [|exact Hl].
    intros x Hx. apply fitsb_mono1. apply fitsb_mono1. exact Hx. }
  assert (Hws : WT (SRet (XDelay (TLit l)))) by (repeat constructor; assumption).
  pose proof (p3_tlit 199 TFUEL_S P3FUEL (S (S (S k))) false false (SRet (XDelay (TLit l))) Hk Hkt Hf Hws) as H.
  unfold P3FUEL in *. change 400 with (S 399) in *. rewrite p3_S in *. cbn [fst] in H.
  change 399 with (S 398) in *. rewrite p3_px_S in *. cbn [p3_th] in *.
  rewrite tlit_S in H. cbn [tlx] in H. apply andb_prop in H. exact H.
Qed.
End PT.
