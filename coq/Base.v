(* Base.v — shared conventions: outcomes, fuel-indexed oracles, small list/heap helpers.
   See DESIGN.md §3.1.  No proofs about go-co here. *)
From Coq Require Export List ZArith Lia Bool Arith.
Export ListNotations.

Set Implicit Arguments.

Section Outcome.
  Variables U P : Type.

  (* result of running a piece of opaque user code on world [u] *)
  Inductive outcome (A : Type) :=
  | Ok (u : U) (a : A)
  | Panic (u : U) (pv : P)
  | Stuck.

  (* fuel-indexed user code: [None] = not enough fuel (possibly diverging) *)
  Definition oracle (A : Type) := nat -> U -> option (outcome A).
End Outcome.

Arguments Ok {U P A}.
Arguments Panic {U P A}.
Arguments Stuck {U P A}.

Definition omap {A B} (f : A -> option B) (o : option A) : option B :=
  match o with Some a => f a | None => None end.

(* association-list heaps indexed by nat locations *)
Definition loc := nat.

Fixpoint lookup {A} (l : list (loc * A)) (x : loc) : option A :=
  match l with
  | [] => None
  | (y, a) :: r => if Nat.eqb x y then Some a else lookup r x
  end.

Fixpoint update {A} (l : list (loc * A)) (x : loc) (a : A) : list (loc * A) :=
  match l with
  | [] => [(x, a)]
  | (y, b) :: r => if Nat.eqb x y then (y, a) :: r else (y, b) :: update r x a
  end.

Lemma lookup_update_same A (l : list (loc * A)) x a : lookup (update l x a) x = Some a.
Proof.
  induction l as [|[y b] l IH]; simpl.
  - now rewrite Nat.eqb_refl.
  - destruct (Nat.eqb x y) eqn:E; simpl; rewrite E; auto.
Qed.

Lemma lookup_update_other A (l : list (loc * A)) x y a :
  x <> y -> lookup (update l y a) x = lookup l x.
Proof.
  intros Hxy. induction l as [|[z b] l IH]; simpl.
  - destruct (Nat.eqb x y) eqn:E; auto. apply Nat.eqb_eq in E. contradiction.
  - destruct (Nat.eqb y z) eqn:E; simpl.
    + apply Nat.eqb_eq in E. subst z.
      destruct (Nat.eqb x y) eqn:E2; auto. apply Nat.eqb_eq in E2. contradiction.
    + destruct (Nat.eqb x z); auto.
Qed.
