// rtdrive: reads a JSON array of cases (see harness/rt), runs each on the real
// seq package and writes a JSON array of results.
package main

import (
	"encoding/json"
	"flag"
	"fmt"
	"os"
	"reflect"

	"github.com/goghcrow/go-co/seq"
	"verif/harness/rt"
)

// stress: n recovered panics on one iterator (retrying the same step) must not
// change what an unrelated, healthy iterator produces afterwards.
func stress(n int) {
	healthy := func() []int {
		i := 0
		it := seq.Start[int](seq.While[int](func() bool { i++; return i <= 5 },
			seq.Delay[int](func() seq.Seq[int] { return seq.Bind[int](i, seq.Normal[int]) })))
		var xs []int
		for it.MoveNext() {
			xs = append(xs, it.Current())
		}
		return xs
	}
	want := healthy()
	bad := seq.Start[int](seq.Delay[int](func() seq.Seq[int] {
		return seq.Bind[int](1, func() seq.Seq[int] { panic("boom") })
	}))
	bad.MoveNext()
	for k := 0; k < n; k++ {
		func() {
			defer func() { _ = recover() }()
			bad.MoveNext()
		}()
	}
	var got []int
	var perr any
	func() {
		defer func() { perr = recover() }()
		got = healthy()
	}()
	if perr != nil || !reflect.DeepEqual(got, want) {
		fmt.Printf("STRESS-FAIL after %d recovered panics: healthy iterator gives %v (panic %v), alone %v\n", n, got, perr, want)
		os.Exit(1)
	}
	fmt.Println("stress ok")
}

func main() {
	st := flag.Int("stress", 0, "number of recovered panics before checking a healthy iterator")
	flag.Parse()
	if *st > 0 {
		stress(*st)
		return
	}
	var cases []*rt.Case
	if err := json.NewDecoder(os.Stdin).Decode(&cases); err != nil {
		panic(err)
	}
	out := make([]rt.Result, len(cases))
	for i, c := range cases {
		out[i] = rt.Run(c)
	}
	if err := json.NewEncoder(os.Stdout).Encode(out); err != nil {
		panic(err)
	}
}
