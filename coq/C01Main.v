(* C01Main.v — end-to-end correctness of the rewriter model on the supported
   fragment: pass0 (SigRel/P3Rel), pass2 (RwCorrect), pass3 (SigRel/P3Rel) and the
   strict reading of callbacks (Strict) composed into one statement about
   [run_source] and [run_target], the two functions the behavioural correspondence
   check (CExec.v) runs against the reference coroutine runtime and the really
   compiled program. *)
From Coq Require Import List Arith Bool Lia.
From Verif Require Import Base Syntax Sem SemLemmas Rewrite Side RwBase Rel TermSound SigRel P3Rel RwCorrect Strict.
Import ListNotations.

Lemma rewrite_pass12 body : rewrite body = (mid <- pass12 body ;; OK (pass3_body mid)).
Proof. unfold rewrite, pass12. cbv zeta. destruct (rw_stmts _ _ _); reflexivity. Qed.

Lemma pass12_spec body mid : pass12 body = OK mid ->
  exists B, rw_stmts (50 + 4 * size 400 (SBlock (map (pass0 400) body))) (map (pass0 400) body) (mkBlock KDelay) = OK B /\ mid = bstmts B.
Proof.
  unfold pass12.
  destruct (rw_stmts (50 + 4 * size 400 (SBlock (map (pass0 400) body))) (map (pass0 400) body) (mkBlock KDelay)) as [B|e]; intros H.
  - exists B. split; [reflexivity|]. unfold bind in H. injection H as <-. reflexivity.
  - discriminate.
Qed.

Lemma rewrite_spec body out : rewrite body = OK out -> exists mid, pass12 body = OK mid /\ out = pass3_body mid.
Proof.
  rewrite rewrite_pass12. destruct (pass12 body) as [mid|e]; intros H; [|discriminate].
  exists mid. split; [reflexivity|]. unfold bind in H. injection H as <-. reflexivity.
Qed.

Lemma KS_bound : S (S (S KS)) <= TFUEL.
Proof. unfold KS, TFUEL. lia. Qed.

Section M.
  Variables U V P : Type.
  Variable aden : nat -> U -> outcome U P unit.
  Variable cden : nat -> U -> outcome U P bool.
  Variable tden : nat -> U -> outcome U P nat.
  Variable kval : nat -> nat.
  Variable yden : nat -> U -> outcome U P V.
  Variable env : nat -> V -> U -> U * bool.

  Notation ex := (exec_list aden cden tden kval yden env).
  Notation callg := (call aden cden tden kval yden env false).
  Notation N := (N aden cden tden kval yden env).

  Lemma call_N n l w : callg (S n) (TLit l) w = N n l w.
  Proof. rewrite call_S. unfold N, norm. destruct (ex n l w) as [[g w1|sv w1|w1|w1 pv|]|]; reflexivity. Qed.

  Lemma source_tail n body u f :
    run_source aden cden tden kval yden env n body u = Some f -> f <> FStuck ->
    exists x, f = final_of x /\ callg (S n) (TLit body) (u, 0) = Some x.
  Proof.
    intros Hsrc Hns. unfold run_source in Hsrc. destruct (ex n body (u, 0)) as [x|] eqn:Ex; [|discriminate].
    cbn [option_map] in Hsrc. injection Hsrc as <-. exists x. split; [reflexivity|].
    rewrite call_N. unfold RwBase.N, norm. rewrite Ex. destruct x; try reflexivity. exfalso. apply Hns. reflexivity.
  Qed.

  Lemma trel_call n t t' w r : trel t t' -> callg n t w = Some r -> callg n t' w = Some r.
  Proof. intros Ht. exact (proj1 (proj2 (proj2 (proj2 (proj2 (proj2 (proj2 (sigrel aden cden tden kval yden env n))))))) t t' w r Ht). Qed.

  Lemma legal_strict kl out n u x : legalb kl out = true ->
    callg n (TLit out) (u, 0) = Some x ->
    run_target aden cden tden kval yden env true (S n) out u = Some (final_of x).
  Proof.
    intros Hl Hc. unfold run_target. rewrite run_S.
    rewrite (proj1 (proj2 (strict_eq U V P aden cden tden kval yden env n)) (TLit out) (u, 0) (okt_OKT kl (TLit out) Hl)).
    rewrite Hc. reflexivity.
  Qed.

  (* the three passes with the stage results named *)
  Lemma passes_correct (body body0 : list stmt) (fu ks kf kl : nat) (B : blk) :
    Forall2 (srel false false) body body0 ->
    rw_stmts fu body0 (mkBlock KDelay) = OK B ->
    supps ks body0 = true ->
    forallb (fitsb kf) (bstmts B) = true -> S (S (S kf)) <= TFUEL ->
    legalb kl (pass3_body (bstmts B)) = true ->
    forall n u f,
      run_source aden cden tden kval yden env n body u = Some f -> f <> FStuck ->
      exists m, run_target aden cden tden kval yden env true m (pass3_body (bstmts B)) u = Some f.
  Proof.
    intros H0rel HB Hsupp Hfm Hkf Hlegal n u f Hsrc Hns.
    destruct (source_tail n body u f Hsrc Hns) as [x [-> H0]].
    (* pass0 *)
    pose proof (trel_call (S n) _ _ _ _ (tr_lit H0rel) H0) as H1. rewrite call_N in H1.
    (* pass2 *)
    destruct (proj1 (pass2_correct aden cden tden kval yden env fu) ks body0 (mkBlock KDelay) B Hsupp (Forall_nil _) eq_refl HB (S n) (u, 0) x) as [m Hm].
    { apply Nseq_empty. eapply N_mono; [|exact H1]. lia. }
    (* pass3 *)
    rewrite <- call_N in Hm.
    pose proof (trel_call (S m) _ _ _ _ (pass3_body_rel kf (bstmts B) Hkf Hfm) Hm) as H3.
    (* strictness *)
    exists (S (S m)). eapply legal_strict; eauto.
  Qed.

  Lemma compiler_correct_unfolded (body : list stmt) (B : blk) (ks kf kl : nat) :
    rw_stmts (50 + 4 * size 400 (SBlock (map (pass0 400) body))) (map (pass0 400) body) (mkBlock KDelay) = OK B ->
    supps ks (map (pass0 400) body) = true ->
    forallb (fitsb kf) body = true ->
    forallb (fitsb kf) (bstmts B) = true -> S (S (S kf)) <= TFUEL ->
    legalb kl (pass3_body (bstmts B)) = true ->
    forall n u f,
      run_source aden cden tden kval yden env n body u = Some f -> f <> FStuck ->
      exists m, run_target aden cden tden kval yden env true m (pass3_body (bstmts B)) u = Some f.
  Proof.
    intros HB Hsupp Hfb Hfm Hkf Hlegal.
    exact (passes_correct body (map (pass0 400) body) _ ks kf kl B (pass0_list_srel 400 kf body Hfb) HB Hsupp Hfm Hkf Hlegal).
  Qed.

  Theorem compiler_correct (body mid out : list stmt) (ks kf kl : nat) :
    pass12 body = OK mid ->
    rewrite body = OK out ->
    supps ks (map (pass0 400) body) = true ->
    forallb (fitsb kf) body = true ->
    forallb (fitsb kf) mid = true -> S (S (S kf)) <= TFUEL ->
    legalb kl out = true ->
    forall n u f,
      run_source aden cden tden kval yden env n body u = Some f -> f <> FStuck ->
      exists m, run_target aden cden tden kval yden env true m out u = Some f.
  Proof.
    intros H12 Hrw Hsupp Hfb Hfm Hkf Hlegal.
    destruct (rewrite_spec body out Hrw) as [mid' [H12' ->]].
    rewrite H12 in H12'. injection H12' as <-.
    destruct (pass12_spec body mid H12) as [B [HB ->]].
    exact (compiler_correct_unfolded body B ks kf kl HB Hsupp Hfb Hfm Hkf Hlegal).
  Qed.

  Theorem compiler_correct_hyps (body : list stmt) :
    c01_hyps body = true ->
    exists out, rewrite body = OK out /\
      forall n u f,
        run_source aden cden tden kval yden env n body u = Some f -> f <> FStuck ->
        exists m, run_target aden cden tden kval yden env true m out u = Some f.
  Proof.
    unfold c01_hyps. destruct (pass12 body) as [mid|e1] eqn:H12; [|discriminate].
    destruct (rewrite body) as [out|e2] eqn:Hrw; [|discriminate]. intros H.
    apply andb_prop in H. destruct H as [H Hl]. apply andb_prop in H. destruct H as [H Hfm].
    apply andb_prop in H. destruct H as [Hs Hfb].
    exists out. split; [reflexivity|].
    exact (compiler_correct body mid out KS KS KS H12 Hrw Hs Hfb Hfm KS_bound Hl).
  Qed.
End M.
