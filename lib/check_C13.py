"""C13 — code that is not a generator is behaviourally unchanged."""
import common as C
import cprops
import optcheck
import optcorpus


def check(rep, tier):
    if not cprops.proof_part(rep, "C13"):
        return
    R = optcheck.run(rep, tier, "C13")
    # the same corpus in a user module that says go 1.22 (per-iteration loop variables)
    R22 = optcheck.run(rep, tier, "C13", gover="1.22", n=6)
    by = R.get("bystanders", {})
    diffs = []
    for tag, res in (("", by), ("@go1.22", R22.get("bystanders", {}))):
        for name, st in sorted(res.items()):
            if name.startswith("_"):
                continue
            if st.get("src") != st.get("out") or st.get("src") != st.get("tmp"):
                diffs.append((name, dict(st, go=tag or "@go1.21")))
    for i, (a, b) in enumerate(zip(R22["out"], R22["ref"])):
        if R22["cases"][i]["g"].startswith("oc.") and a.get("events") != b.get("events"):
            diffs.append((R22["cases"][i]["g"].split(".")[1], {"go": "@go1.22", "compiled_events": a["events"], "reference_events": b["events"]}))
    if R22.get("bystander_build_error") and not R.get("bystander_build_error"):
        R["bystander_build_error"] = R22["bystander_build_error"]
    # ordinary closures inside generator bodies: compiled vs reference for the closure-heavy corpus generators
    cases = R["cases"]
    gdiff = [i for i, (a, b) in enumerate(zip(R["out"], R["ref"])) if cases[i]["g"].startswith("oc.") and a.get("events") != b.get("events")]
    eta_bad = eta_model(rep, R.get("oc_out_text", ""))
    rep.coverage.update({
        "evaluations": len(by) * 3 + len([c for c in cases if c["g"].startswith("oc.")]),
        "programs": len(optcorpus.BYSTANDERS) + len(optcorpus.GENS),
        "distinct_nontrivial": len(by) + len(optcorpus.GENS),
        "disagreements_checked": len(diffs) + len(gdiff),
        "bystander_results": by,
        "rule": "plain functions, methods, constants, variable initialisers and closures of the shape func(ps) { return f(ps) } (f a mutable "
                "function variable, a pointer/value/interface method value, a builtin, a conversion, a generic or variadic function, a call "
                "result, a package-level function) placed in the same file as generators: results of the SOURCE package (stub API, native Go) "
                "vs the unoptimised stage vs the generated package; plus closures inside generator bodies (compiled vs reference)",
        "samples": [{"bystander": k, "source": "\n".join(optcorpus.BYSTANDERS[k])} for k in list(optcorpus.BYSTANDERS)[:2]],
    })
    if R.get("bystander_build_error"):
        rep.violation(rep.write_replay("generated_package_does_not_build", {
            "what": "the package generated from the corpus file does not build (or a stage of it)", "go_build": R["bystander_build_error"],
            "generated_text": R.get("oc_out_text", "")[:6000]}))
    elif diffs:
        name, st = diffs[0]
        rep.violation(rep.write_replay("bystander_changed", {
            "what": "a function that is not a generator behaves differently in the generated file",
            "function": name, "source_text": optcorpus.BYSTANDERS.get(name) or optcorpus.GENS.get(name), "results": st, "others": [d[0] for d in diffs[1:]]}))
    elif gdiff:
        i = gdiff[0]
        rep.violation(rep.write_replay("closure_in_generator_changed", {
            "what": "an ordinary closure inside a generator body changed its meaning",
            "generator": cases[i]["g"], "source_text": optcorpus.GENS[cases[i]["g"].split(".")[1]], "tape": cases[i]["tape"],
            "compiled_events": R["out"][i]["events"], "reference_events": R["ref"][i]["events"]}))
    if not rep.violations and eta_bad:
        rep.violation(rep.write_replay("eta_model", {
            "what": "the optimiser's decision to eta-reduce a closure differs from the decision of the model (coq/EtaModel.v: reduces); theorem "
                    "C13_eta_reduction_sound_partial no longer speaks about this code", "detail": eta_bad}), "no-failing-input-found")
    rep.assumptions = ["the source package is built natively with the real go-co stub API (Yield is a no-op there), so only non-generator functions are compared against it"]



def eta_model(rep, out_text):
    """Decision correspondence: for one closure of every callee class, was it eta-reduced in the generated file?
    Compared with EtaModel.reduces evaluated inside Coq."""
    import os
    import re
    if not os.path.exists(os.path.join(C.COQ, "EtaModel.v")) or not out_text:
        return None
    names = list(optcorpus.ETA_CASES)
    observed = {}
    for n in names:
        cls, am, ti, var, lines = optcorpus.ETA_CASES[n]
        m = re.search(r"^func %s\(\) \[\]int \{\n(.*?)^\}" % n, out_text, re.S | re.M)
        if not m:
            return {"function": n, "problem": "not found in the generated file"}
        mm = re.search(r"^\s*%s := (.*)$" % re.escape(var), m.group(1), re.M)
        if not mm:
            return {"function": n, "problem": "definition of %s not found" % var}
        observed[n] = not mm.group(1).lstrip().startswith("func(")
    rows = "; ".join("(%s, %s, %s)" % ("true" if optcorpus.ETA_CASES[n][1] else "false", "true" if optcorpus.ETA_CASES[n][2] else "false", optcorpus.ETA_CASES[n][0])
                     for n in names)
    txt = ("From Coq Require Import List.\nFrom Verif Require Import EtaModel.\nImport ListNotations.\n"
           "Definition D := Eval vm_compute in map (fun r => match r with (am, ti, c) => reduces am ti c end) [%s].\nPrint D.\n" % rows)
    ev = C.workdir("eta")
    try:
        rc, out = C.coq_eval(ev, "eta_cases", txt)
    finally:
        C.rmtree(ev)
    if rc != 0:
        raise RuntimeError("coqc failed on eta cases: " + out[-2000:])
    body = re.search(r"D\s*=\s*\[(.*?)\]\s*:\s*list", out, re.S).group(1)
    model = [x.strip() == "true" for x in body.split(";")]
    if len(model) != len(names):
        raise RuntimeError("eta model evaluation returned %d decisions for %d closures" % (len(model), len(names)))
    rep.coverage["eta_decisions_compared"] = len(names)
    rep.coverage["eta_decisions"] = {n: {"model_reduces": d, "optimiser_reduced": observed[n]} for n, d in zip(names, model)}
    bad = [n for n, d in zip(names, model) if d != observed[n]]
    rep.coverage["eta_decision_mismatches"] = len(bad)
    if bad:
        n = bad[0]
        return {"function": n, "class": optcorpus.ETA_CASES[n][0], "model_reduces": dict(zip(names, model))[n], "optimiser_reduced": observed[n],
                "source": optcorpus.ETA_CASES[n][4]}
    return None

def replay(rep, path):
    print("re-run: bin/check C13 (fixed corpus)")
    return 0
