(* Utf8.v — UTF-8 decoding as done by Go's range over strings and by
   unicode/utf8.DecodeRuneInString (which seq/iter.go's stringIter calls), written
   from the Go sources' table (first-byte classes, accept ranges); bytes and
   runes are Z.  Validated against the Go runtime by the C10 correspondence. *)
From Coq Require Import List ZArith Lia Bool.
Import ListNotations.
Local Open Scope Z_scope.

Definition RuneError : Z := 65533.   (* U+FFFD *)

(* size and accept range of the second byte, by first byte; size 0 = invalid first byte *)
Definition first_class (b : Z) : (nat * Z * Z) :=
  if b <? 128 then (1%nat, 0, 0)
  else if b <? 194 then (0%nat, 0, 0)                 (* 0x80..0xC1: continuation or overlong lead *)
  else if b <? 224 then (2%nat, 128, 191)             (* 0xC2..0xDF *)
  else if b =? 224 then (3%nat, 160, 191)             (* 0xE0: A0..BF *)
  else if b =? 237 then (3%nat, 128, 159)             (* 0xED: 80..9F (no surrogates) *)
  else if b <? 240 then (3%nat, 128, 191)             (* 0xE1..0xEF *)
  else if b =? 240 then (4%nat, 144, 191)             (* 0xF0: 90..BF *)
  else if b <? 244 then (4%nat, 128, 191)             (* 0xF1..0xF3 *)
  else if b =? 244 then (4%nat, 128, 143)             (* 0xF4: 80..8F *)
  else (0%nat, 0, 0).                                 (* 0xF5..0xFF *)

Definition is_cont (b : Z) : bool := (128 <=? b) && (b <=? 191).

(* decode the first rune of a non-empty byte list: (rune, width in bytes) *)
Definition decode_rune (p : list Z) : Z * nat :=
  match p with
  | [] => (RuneError, 0%nat)
  | p0 :: rest =>
      let '(sz, lo, hi) := first_class p0 in
      match sz with
      | 1%nat => (p0, 1%nat)
      | 2%nat =>
          match rest with
          | b1 :: _ => if (lo <=? b1) && (b1 <=? hi) then ((p0 mod 32) * 64 + b1 mod 64, 2%nat) else (RuneError, 1%nat)
          | _ => (RuneError, 1%nat)
          end
      | 3%nat =>
          match rest with
          | b1 :: b2 :: _ =>
              if (lo <=? b1) && (b1 <=? hi) && is_cont b2
              then ((p0 mod 16) * 4096 + (b1 mod 64) * 64 + b2 mod 64, 3%nat) else (RuneError, 1%nat)
          | _ => (RuneError, 1%nat)
          end
      | 4%nat =>
          match rest with
          | b1 :: b2 :: b3 :: _ =>
              if (lo <=? b1) && (b1 <=? hi) && is_cont b2 && is_cont b3
              then ((p0 mod 8) * 262144 + (b1 mod 64) * 4096 + (b2 mod 64) * 64 + b3 mod 64, 4%nat) else (RuneError, 1%nat)
          | _ => (RuneError, 1%nat)
          end
      | _ => (RuneError, 1%nat)
      end
  end.

Lemma decode_width_pos p : p <> [] -> (1 <= snd (decode_rune p) <= 4)%nat.
Proof.
  destruct p as [|p0 rest]; [congruence|intros _]. unfold decode_rune.
  destruct (first_class p0) as [[sz lo] hi].
  destruct sz as [|[|[|[|[|sz]]]]]; cbn; try lia.
  - destruct rest as [|b1 r]; cbn; [lia|]. destruct ((lo <=? b1) && (b1 <=? hi)); cbn; lia.
  - destruct rest as [|b1 [|b2 r]]; cbn; try lia. destruct ((lo <=? b1) && (b1 <=? hi) && is_cont b2); cbn; lia.
  - destruct rest as [|b1 [|b2 [|b3 r]]]; cbn; try lia.
    destruct ((lo <=? b1) && (b1 <=? hi) && is_cont b2 && is_cont b3); cbn; lia.
Qed.

Lemma decode_width_le p : (snd (decode_rune p) <= length p)%nat.
Proof.
  destruct p as [|p0 rest]; [cbn; lia|]. unfold decode_rune.
  destruct (first_class p0) as [[sz lo] hi].
  destruct sz as [|[|[|[|[|sz]]]]]; cbn; try lia.
  - destruct rest as [|b1 r]; cbn; [lia|]. destruct ((lo <=? b1) && (b1 <=? hi)); cbn; lia.
  - destruct rest as [|b1 [|b2 r]]; cbn; try lia. destruct ((lo <=? b1) && (b1 <=? hi) && is_cont b2); cbn; lia.
  - destruct rest as [|b1 [|b2 [|b3 r]]]; cbn; try lia.
    destruct ((lo <=? b1) && (b1 <=? hi) && is_cont b2 && is_cont b3); cbn; lia.
Qed.

(* ---- an independent specification: the UTF-8 encoder of RFC 3629 ---- *)
Definition scalar (r : Z) : Prop := (0 <= r < 55296) \/ (57344 <= r <= 1114111).

Definition encode_rune (r : Z) : list Z :=
  if r <? 128 then [r]
  else if r <? 2048 then [192 + r / 64; 128 + r mod 64]
  else if r <? 65536 then [224 + r / 4096; 128 + (r / 64) mod 64; 128 + r mod 64]
  else [240 + r / 262144; 128 + (r / 4096) mod 64; 128 + (r / 64) mod 64; 128 + r mod 64].

Ltac Zify.zify_post_hook ::= Z.div_mod_to_equations.

(* decoding the encoding of any Unicode scalar value gives it back, with its width,
   whatever follows *)
Theorem decode_encode r tl : scalar r -> decode_rune (encode_rune r ++ tl) = (r, length (encode_rune r)).
Proof.
  intros Hs. unfold encode_rune.
  destruct (r <? 128) eqn:E1; [apply Z.ltb_lt in E1|apply Z.ltb_ge in E1].
  { cbn [app decode_rune]. unfold first_class. destruct (r <? 128) eqn:E; [reflexivity|apply Z.ltb_ge in E; lia]. }
  destruct (r <? 2048) eqn:E2; [apply Z.ltb_lt in E2|apply Z.ltb_ge in E2].
  { cbn [app decode_rune length]. set (p0 := 192 + r / 64). set (b1 := 128 + r mod 64).
    assert (H0 : 194 <= p0 < 224) by (unfold p0; lia).
    assert (H1 : 128 <= b1 <= 191) by (unfold b1; lia).
    unfold first_class.
    replace (p0 <? 128) with false by (symmetry; apply Z.ltb_ge; lia).
    replace (p0 <? 194) with false by (symmetry; apply Z.ltb_ge; lia).
    replace (p0 <? 224) with true by (symmetry; apply Z.ltb_lt; lia).
    replace ((128 <=? b1) && (b1 <=? 191)) with true by (symmetry; apply andb_true_iff; split; apply Z.leb_le; lia).
    f_equal. unfold p0, b1. lia. }
  destruct (r <? 65536) eqn:E3; [apply Z.ltb_lt in E3|apply Z.ltb_ge in E3].
  { cbn [app decode_rune length]. set (p0 := 224 + r / 4096). set (b1 := 128 + (r / 64) mod 64). set (b2 := 128 + r mod 64).
    assert (H0 : 224 <= p0 < 240) by (unfold p0; lia).
    assert (H2 : 128 <= b2 <= 191) by (unfold b2; lia).
    assert (Hc2 : is_cont b2 = true) by (unfold is_cont; apply andb_true_iff; split; apply Z.leb_le; lia).
    unfold first_class.
    replace (p0 <? 128) with false by (symmetry; apply Z.ltb_ge; lia).
    replace (p0 <? 194) with false by (symmetry; apply Z.ltb_ge; lia).
    replace (p0 <? 224) with false by (symmetry; apply Z.ltb_ge; lia).
    destruct (p0 =? 224) eqn:Ea; [apply Z.eqb_eq in Ea|apply Z.eqb_neq in Ea].
    - assert (160 <= b1 <= 191) by (unfold p0, b1 in *; lia).
      replace ((160 <=? b1) && (b1 <=? 191)) with true by (symmetry; apply andb_true_iff; split; apply Z.leb_le; lia).
      rewrite Hc2. cbn [andb]. f_equal. unfold p0, b1, b2 in *. lia.
    - destruct (p0 =? 237) eqn:Eb; [apply Z.eqb_eq in Eb|apply Z.eqb_neq in Eb].
      + assert (128 <= b1 <= 159) by (unfold p0, b1 in *; destruct Hs; lia).
        replace ((128 <=? b1) && (b1 <=? 159)) with true by (symmetry; apply andb_true_iff; split; apply Z.leb_le; lia).
        rewrite Hc2. cbn [andb]. f_equal. unfold p0, b1, b2 in *. lia.
      + replace (p0 <? 240) with true by (symmetry; apply Z.ltb_lt; lia).
        assert (128 <= b1 <= 191) by (unfold b1; lia).
        replace ((128 <=? b1) && (b1 <=? 191)) with true by (symmetry; apply andb_true_iff; split; apply Z.leb_le; lia).
        rewrite Hc2. cbn [andb]. f_equal. unfold p0, b1, b2 in *. lia. }
  { assert (Hr : r <= 1114111) by (destruct Hs; lia).
    cbn [app decode_rune length]. set (p0 := 240 + r / 262144). set (b1 := 128 + (r / 4096) mod 64).
    set (b2 := 128 + (r / 64) mod 64). set (b3 := 128 + r mod 64).
    assert (H0 : 240 <= p0 <= 244) by (unfold p0; lia).
    assert (H2 : 128 <= b2 <= 191) by (unfold b2; lia).
    assert (H3 : 128 <= b3 <= 191) by (unfold b3; lia).
    assert (Hc2 : is_cont b2 = true) by (unfold is_cont; apply andb_true_iff; split; apply Z.leb_le; lia).
    assert (Hc3 : is_cont b3 = true) by (unfold is_cont; apply andb_true_iff; split; apply Z.leb_le; lia).
    unfold first_class.
    replace (p0 <? 128) with false by (symmetry; apply Z.ltb_ge; lia).
    replace (p0 <? 194) with false by (symmetry; apply Z.ltb_ge; lia).
    replace (p0 <? 224) with false by (symmetry; apply Z.ltb_ge; lia).
    replace (p0 =? 224) with false by (symmetry; apply Z.eqb_neq; lia).
    replace (p0 =? 237) with false by (symmetry; apply Z.eqb_neq; lia).
    replace (p0 <? 240) with false by (symmetry; apply Z.ltb_ge; lia).
    destruct (p0 =? 240) eqn:Ea; [apply Z.eqb_eq in Ea|apply Z.eqb_neq in Ea].
    - assert (144 <= b1 <= 191) by (unfold p0, b1 in *; lia).
      replace ((144 <=? b1) && (b1 <=? 191)) with true by (symmetry; apply andb_true_iff; split; apply Z.leb_le; lia).
      rewrite Hc2, Hc3. cbn [andb]. f_equal. unfold p0, b1, b2, b3 in *. lia.
    - destruct (p0 <? 244) eqn:Eb; [apply Z.ltb_lt in Eb|apply Z.ltb_ge in Eb].
      + assert (128 <= b1 <= 191) by (unfold b1; lia).
        replace ((128 <=? b1) && (b1 <=? 191)) with true by (symmetry; apply andb_true_iff; split; apply Z.leb_le; lia).
        rewrite Hc2, Hc3. cbn [andb]. f_equal. unfold p0, b1, b2, b3 in *. lia.
      + replace (p0 =? 244) with true by (symmetry; apply Z.eqb_eq; lia).
        assert (128 <= b1 <= 143) by (unfold p0, b1 in *; lia).
        replace ((128 <=? b1) && (b1 <=? 143)) with true by (symmetry; apply andb_true_iff; split; apply Z.leb_le; lia).
        rewrite Hc2, Hc3. cbn [andb]. f_equal. unfold p0, b1, b2, b3 in *. lia. }
Qed.
