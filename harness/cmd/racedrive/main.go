// racedrive: runs every case on several goroutines at once, each with its own
// World and its own iterators (so user state is not shared); built with -race it
// fails (exit 66) if the runtime shares state between iterators. It also checks
// that all goroutines observe the same events as a sequential run.
package main

import (
	"encoding/json"
	"fmt"
	"os"
	"reflect"
	"sync"

	"verif/harness/rt"
)

func main() {
	var cases []*rt.Case
	if err := json.NewDecoder(os.Stdin).Decode(&cases); err != nil {
		panic(err)
	}
	const par = 6
	bad := 0
	for i, c := range cases {
		want := rt.Run(c)
		got := make([]rt.Result, par)
		var wg sync.WaitGroup
		for g := 0; g < par; g++ {
			wg.Add(1)
			go func(g int) {
				defer wg.Done()
				got[g] = rt.Run(c)
			}(g)
		}
		wg.Wait()
		for g := 0; g < par; g++ {
			if !reflect.DeepEqual(got[g].Events, want.Events) {
				fmt.Printf("DIFF case=%d goroutine=%d\n", i, g)
				bad++
				break
			}
		}
	}
	fmt.Printf("cases=%d diffs=%d\n", len(cases), bad)
	if bad > 0 {
		os.Exit(1)
	}
}
